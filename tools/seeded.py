#!/usr/bin/env python3
"""Confirm a sub-agent's breaking change and measure which checks detect it.

  seeded.py confirm <ID> <X>      in the scratch worktree /tmp/mut/verify: demo passes on the clean tree, fails
                                  with the patch; the unedited suite passes with the patch
  seeded.py detect <ID> <X> [props...]   apply the patch to /repo, run ./check for the property (and any others
                                  named), undo; prints DETECTED/MISSED per check
  seeded.py keep <ID> <X>         copy patch, demo, meta into /verif/seeded/<ID>-<X>/ (after confirm + detect)
"""
import json, os, re, shutil, subprocess, sys, time

OUT = "/tmp/mut/out"
WT = "/tmp/mut/verify"

def sh(cmd, cwd=None, timeout=1800):
    p = subprocess.run(cmd, shell=True, cwd=cwd, capture_output=True, text=True, timeout=timeout)
    return p.returncode, p.stdout + p.stderr

def crate_of(demo_text):
    return "alator" if re.search(r"\buse alator\b|alator::", demo_text) else "rotala"

def tests_dir(crate):
    return "example_clients/alator/tests" if crate == "alator" else "rotala/tests"

def ensure_wt():
    if not os.path.isdir(WT):
        rc, o = sh(f"git -C /repo worktree add -q --detach {WT} HEAD")
        assert rc == 0, o
    sh("git checkout -q --detach $(git -C /repo rev-parse HEAD) && git checkout -- . && git clean -fdq -e target", cwd=WT)

def suite(cwd):
    # the one inherently flaky baseline test is retried
    for attempt in range(3):
        rc, o = sh("cargo test --workspace --no-fail-fast --offline 2>&1", cwd=cwd)
        failed = re.findall(r"^test (\S+) \.\.\. FAILED", o, re.M)
        if rc == 0:
            return True, ""
        if set(failed) <= {"http::jura::tests::test_single_trade_loop"} and failed:
            continue
        return False, "\n".join(failed) or o[-2000:]
    return False, "flaky test failed three times"

def confirm(pid, x):
    d = f"{OUT}/{pid}/{x}"
    demo = open(f"{d}/demo.rs").read()
    crate = crate_of(demo)
    name = f"demo_{pid.lower()}_{x.lower()}"
    ensure_wt()
    dst = f"{WT}/{tests_dir(crate)}/{name}.rs"
    shutil.copy(f"{d}/demo.rs", dst)
    res = {"crate": crate}
    rc, o = sh(f"cargo test --offline -p {crate} --test {name} 2>&1", cwd=WT)
    res["demo_passes_without_change"] = rc == 0
    if rc != 0:
        res["demo_clean_output"] = o[-1500:]
    rc, o = sh(f"git apply {d}/patch.diff", cwd=WT)
    res["patch_applies"] = rc == 0
    if rc != 0:
        res["apply_output"] = o
        print(json.dumps(res, indent=1)); return res
    rc, o = sh(f"cargo test --offline -p {crate} --test {name} 2>&1", cwd=WT)
    res["demo_fails_with_change"] = rc != 0 and "error: could not compile" not in o and "error[" not in o
    res["demo_failure_excerpt"] = "\n".join([l for l in o.splitlines() if "panicked" in l or "assert" in l][:4])
    os.remove(dst)
    ok, why = suite(WT)
    res["suite_passes_with_change"] = ok
    if not ok:
        res["suite_failures"] = why
    rc, o = sh("cargo build --offline --features verif -p alator 2>&1", cwd=WT)
    res["builds_with_hooks"] = rc == 0
    sh("git checkout -- . && git clean -fdq -e target", cwd=WT)
    res["confirmed"] = all(res.get(k) for k in ["demo_passes_without_change", "patch_applies", "demo_fails_with_change", "suite_passes_with_change", "builds_with_hooks"])
    print(json.dumps(res, indent=1))
    json.dump(res, open(f"{d}/confirm.json", "w"), indent=1)
    return res

def detect(pid, x, props):
    d = f"{OUT}/{pid}/{x}"
    rc, o = sh("git -C /repo status --porcelain")
    assert o.strip() == "", "/repo is not clean: " + o
    rc, o = sh(f"git -C /repo apply {d}/patch.diff")
    assert rc == 0, o
    results = {}
    try:
        for p in props:
            t0 = time.time()
            env = "VERIF_DIR=/tmp/mut/vdir"
            os.makedirs("/tmp/mut/vdir/evidence", exist_ok=True)
            if not os.path.exists("/tmp/mut/vdir/known_findings.json"):
                shutil.copy("/verif/known_findings.json", "/tmp/mut/vdir/known_findings.json")
                shutil.copytree("/verif/findings", "/tmp/mut/vdir/findings", dirs_exist_ok=True)
            rc, o = sh(f"{env} /verif/check {p} --tier quick 2>&1", cwd="/verif")
            line = [l for l in o.splitlines() if "violation in run" in l or "regression" in l or "HARNESS" in l]
            results[p] = {"exit": rc, "detected": rc == 1 and "VIOLATION property=" in o, "wall_s": round(time.time() - t0, 1),
                          "what": (line[0][:400] if line else "")}
            print(p, "DETECTED" if results[p]["detected"] else ("HARNESS-ERROR" if rc == 2 else "MISSED"), results[p]["wall_s"], "s", results[p]["what"][:300])
    finally:
        sh("git -C /repo checkout -- .")
    old = {}
    if os.path.exists(f"{d}/detect.json"):
        old = json.load(open(f"{d}/detect.json"))
    old.update(results)
    json.dump(old, open(f"{d}/detect.json", "w"), indent=1)
    return results

def keep(pid, x):
    d = f"{OUT}/{pid}/{x}"
    dst = f"/verif/seeded/{pid}-{x}"
    os.makedirs(dst, exist_ok=True)
    shutil.copy(f"{d}/patch.diff", f"{dst}/patch.diff")
    shutil.copy(f"{d}/demo.rs", f"{dst}/demo.rs")
    conf = json.load(open(f"{d}/confirm.json"))
    det = json.load(open(f"{d}/detect.json")) if os.path.exists(f"{d}/detect.json") else {}
    meta = {
        "id": f"{pid}-{x}",
        "property": pid,
        "written_by": "independent sub-agent given only the property text and a scratch worktree",
        "needs_to_manifest_and_description": open(f"{d}/meta.txt").read(),
        "demo_crate": conf.get("crate"),
        "confirmed_by_me": {k: conf.get(k) for k in ["demo_passes_without_change", "demo_fails_with_change", "suite_passes_with_change", "builds_with_hooks", "confirmed"]},
        "what_i_ran": [
            f"scratch worktree /tmp/mut/verify: cargo test --offline -p {conf.get('crate')} --test demo (clean: pass; patched: fail); cargo test --workspace --no-fail-fast --offline with the patch (pass)",
            f"git -C /repo apply patch.diff; ./check <property> --tier quick; git -C /repo checkout -- .",
        ],
        "detected_by": {k: v for k, v in det.items()},
    }
    json.dump(meta, open(f"{dst}/meta.json", "w"), indent=1)
    print("kept", dst)

if __name__ == "__main__":
    cmd, pid, x = sys.argv[1], sys.argv[2], sys.argv[3]
    if cmd == "confirm":
        confirm(pid, x)
    elif cmd == "detect":
        detect(pid, x, sys.argv[4:] or [pid])
    elif cmd == "keep":
        keep(pid, x)
