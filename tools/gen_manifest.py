#!/usr/bin/env python3
"""Regenerates /verif/MANIFEST.json from the table below (kept in one place so it stays valid)."""
import json, subprocess

HOOK_COMMITS = subprocess.run(
    ["git", "-C", "/repo", "log", "--format=%H %s", "--grep", "^verif hook"],
    capture_output=True, text=True).stdout.strip().splitlines()

A1 = ("Assumes A1 (each actix handler holds the AppState mutex for its whole body, so request-level "
      "interleavings are all the behaviours threads could produce). Sampling, not proof.")

CHECKS = {
  # id: (engine label, technique, level text, level note, design ref)
  "C01": ("E1 exchange+server", "seeded simulation of exchange/server histories with step rules over snapshots",
          "Seeded search over interleavings of insert/delete/tick from several simulated clients on generated datasets (gaps, jumps, irregular clocks), bare exchange and server (direct and in-memory JSON path); every fill is checked against the pre-tick snapshot, the tick's own quotes and the clock at submission.",
          A1, "5/E1/C01"),
  "C02": ("E1 exchange+server", "seeded simulation with the property's fill table as executable oracle",
          "Every tick of every run is compared, as a multiset of fills and as a post-tick book, with the property's fill table evaluated on the pre-tick snapshot; prices are generated on the quote grid so exact-boundary cases occur constantly.",
          A1, "5/E1/C02"),
  "C03": ("E1 exchange+server", "seeded simulation with conservation invariants over snapshots and histories",
          "Structural conservation invariants (ids unique for life, admitted exactly once, at most one full fill, delete removes exactly one, admitted = filled + cancelled + resting) checked after every operation of long mixed histories with bad-cancel faults.",
          A1, "5/E1/C03"),
  "C07": ("E1 exchange+server", "seeded simulation of the server clock under client interleavings",
          "Per backtest the k-th tick must match date k, report has_next iff k<N and leave clock/fetch_quotes/now on date k+1; loop clients tick to the end (bounded liveness: exactly N ticks), others tick past it; other clients interleave.",
          A1, "5/E1/C07"),
  "C08": ("E1 exchange+server", "seeded client scheduling (uniform and PCT-style) with digests and solo re-runs",
          "Ids are compared with every id ever handed out; after every request the digest of every other backtest must be unchanged; unknown targets must be rejected without effect; each backtest's response stream is compared with a solo re-run on a fresh server.",
          A1, "5/E1/C08"),
  "C18": ("E1 exchange+server", "seeded simulation with the property's IOC/GTC/trigger table as executable oracle",
          "Every Jura tick is compared with the property's table (one-shot IOC with 10% slippage, resting GTC, four trigger directions, child order kind/fields/fresh id announced, child not eligible on the firing tick) over all eight constructors plus deserialised orders with is_market=false and trigger_px != limit_px; what the exchange did structurally (who left the book, who appeared) is observed from snapshots.",
          A1, "5/E1/C18"),
  "C17": ("E1 exchange+server", "seeded simulation with adversarial batch layouts and sizes",
          "Batches of up to 300 (quick) / 5000 (thorough) orders in iid, alternating, block, one-odd, sorted and reversed layouts; the admitted list must be a sells-first permutation with strictly growing ids and fills must come in book order.",
          A1, "5/E1/C17"),
}

NOT_APPLICABLE = [
  ("C13", "pure function of (budget, price, cost list): no state, clock, schedule, fault or interleaving for a simulator to own; random cost lists would be input generation in simulator vocabulary"),
  ("C14", "pure function of a snapshot vector; the simulated strategy only produces a small corner (inflation 0, one deposit) of the quantified domain"),
  ("C15", "pure function of a return vector (a defect in it is visible by inspection and noted in DESIGN.md section 7, D10, but this technique does not decide it)"),
  ("C19", "pure function of one timestamp over a finite calendar; the right tool is exhaustive enumeration, which is not this technique"),
]

def main():
    checks = []
    for pid in sorted(CHECKS):
        eng, tech, text, note, ref = CHECKS[pid]
        checks.append({
            "property_id": pid,
            "quick_cmd": f"./check {pid} --tier quick",
            "thorough_cmd": f"./check {pid} --tier thorough",
            "evidence_file": f"/verif/evidence/{pid}.json",
            "replay_cmd_template": "./check replay {path}",
            "engine": eng,
            "level_claimed": {"category": "exploration", "text": text, "design_ref": ref},
            "level_note": note,
            "technique": "deterministic simulation with fault injection: " + tech,
        })
    claimed = set(CHECKS)
    na = [{"property_id": p, "reason": r} for p, r in NOT_APPLICABLE]
    all_ids = [json.loads(l)["id"] for l in open("/verif/properties.jsonl")]
    for p in all_ids:
        if p not in claimed and p not in [x for x, _ in NOT_APPLICABLE]:
            na.append({"property_id": p, "reason": "check not built yet at this commit (planned, see DESIGN.md section 2)"})
    m = {
        "version": 1,
        "setup_cmd": "cd /verif/sim && CARGO_NET_OFFLINE=true cargo build --release --offline",
        "hooks": {
            "guard": "cargo feature `verif` (rotala/verif, alator/verif), off by default",
            "enable": "the simulator crate /verif/sim depends on /repo/rotala and /repo/example_clients/alator by path with features = [\"verif\"]",
            "baseline_off_cmd": "cd /repo && cargo test --workspace --no-fail-fast --offline",
            "source_commits": [l.split()[0] for l in HOOK_COMMITS][::-1],
            "add_only": True,
        },
        "engines": [
            {"name": "sim", "path": "/verif/sim", "serves_properties": sorted(claimed),
             "kind_free_text": "single-process deterministic simulator (own PRNG, own executor, transport seam, seeded market model, client scheduler, replay + shrinking)"},
        ],
        "checks": checks,
        "not_applicable": sorted(na, key=lambda x: x["property_id"]),
        "notes": "Exit 0 held / 1 VIOLATION line / 2 harness or build error. VERIF_SEED and VERIF_TIER are honoured. Known findings: /verif/known_findings.json.",
    }
    json.dump(m, open("/verif/MANIFEST.json", "w"), indent=1)
    print("claimed", sorted(claimed), "n/a", [x["property_id"] for x in na])

main()
