#!/usr/bin/env python3
"""Regenerates /verif/MANIFEST.json from the table below (kept in one place so it stays valid)."""
import json, subprocess

HOOK_COMMITS = subprocess.run(
    ["git", "-C", "/repo", "log", "--format=%H %s", "--grep", "^verif hook"],
    capture_output=True, text=True).stdout.strip().splitlines()

A1 = ("Relies on A1 (each actix handler holds the AppState mutex for its whole body, so request-level "
      "interleavings are all the behaviours threads could produce); A1 itself is checked by the thread-level engine E5 "
      "of the C08 check (real handlers on simulated threads, linearizability). Sampling, not proof.")

A1T = ("Request-level engines rely on A1 (handlers hold the AppState mutex for their whole body); engine E5 of this very check "
       "does not: it runs a textual shadow copy of rotala/src/http/{uist,jura}.rs (std Mutex replaced by the simulator's) on "
       "simulated threads. Scheduling points are lock operations only; E5 prices are on a 0.25 grid. Sampling, not proof.")

A3 = ("The broker talks to the server only through the harness's SimClient (the UistClient trait is the seam; per request "
      "the future is eager, lazy or Pending-delayed; insert_order and tick requests can be lost, tick and fetch_quotes responses can be lost, "
      "each with Err returned to the broker; slow requests / responses let 50 ms - 10 min pass on the simulated clock, a paused tokio clock only the simulator advances); real sockets are outside the simulation, the shipped reqwest-based client runs over a stand-in transport in engine e2. Errors from now are not injected "
      "(the SUT unwraps them). Trades of a tick whose own response was lost are unknowable to any broker and are accounted as such. "
      "The holdings-map iteration order is scheduled through hook H2. Sampling, not proof.")

CHECKS = {
  "C16": ("E4 strategy", "seeded simulation of the strategy loop with a request budget (bounded liveness) and a wire-fed ledger",
          "The real StaticWeightStrategy runs its own while-has_next loop (a request budget turns a loop that never ends into a finite, replayable violation) or is stepped by the harness with withdrawals interleaved; transport faults (lost insert / tick requests, lost tick / quote responses) are injected under a per-operation fault budget; the history must have exactly N snapshots (plus one per tick request the transport lost) dated by the server clock after each tick attempt, portfolio_value must equal the broker's total value (stepped) and the wire-fed ledger valuation (own loop), net_cash_flow must equal deposits - successful withdrawals, and in constant-price zero-spread worlds every snapshot must equal the deposit.",
          A3, "5/E4/C16"),
  "C20": ("E2 wire twin", "seeded differential simulation: in-process twin vs in-memory actix JSON service",
          "The same interleaved request sequence (all seven Uist / six Jura routes, unknown backtests and datasets, JSON edge values, non-ASCII symbols, client-set order ids) is applied to an in-process AppState and to the real actix handlers behind an in-memory service; status, decoded bodies (1e-12 on floats) and the state digests behind both are compared after every request; Order/Trade/Fill/quote round trips are checked; on Uist the library's own TestClient is driven as a third twin through the same history.",
          A1, "5/E2/C20"),
  "C04": ("E3 broker", "seeded simulation of broker operation histories against an independent wire-fed ledger",
          "A real UistBroker over the simulated transport (direct or in-memory JSON, eager/lazy/delayed futures) runs seeded histories of deposit/withdraw/send/liquidate/check/diff on datasets with gaps and price jumps; after every operation cash must equal deposits - withdrawals -/+ the trades the server returned.",
          A3, "5/E3/C04"),
  "C05": ("E3 broker", "seeded simulation against an independent wire-fed ledger",
          "After every operation holdings, the trade log, pending exposure and holdings-with-pending are compared with a ledger fed only by the server's executions and the acceptance events; exact for whole shares, 1e-6 otherwise.",
          A3, "5/E3/C05"),
  "C06": ("E3 broker", "seeded simulation with per-request delivery modes (eager, lazy, Pending-delayed futures)",
          "Every send_order is judged against the property's predicate on the broker's own reported state (boundary cash == cost constructed, zero size, Failed state, all six types); a forwarded order must have reached the exchange exactly once and unchanged by the time send_order returns whatever the delivery mode; a refusal must leave broker and exchange bit-identical.",
          A3, "5/E3/C06"),
  "C09": ("E3 broker", "seeded simulation with price jumps between submission and execution",
          "After every check() that started Ready and long-only: Failed iff cash < 0 and shortfall + 1000 > liquidation value; Ready with negative cash implies a sell reached the exchange; once Failed always Failed, cash operations and orders refused without effect, in-flight fills still reconciled.",
          A3, "5/E3/C09"),
  "C10": ("E3 broker", "seeded simulation with scheduled holdings-map iteration order (hook H2)",
          "Explicit and automatic liquidation requests over portfolios with non-integer bids and several positions, under a PRNG-chosen iteration order of the holdings map: the sells that reached the exchange must be market sells worth at least the amount at last seen bids, none above the position; failure queues nothing.",
          A3, "5/E3/C10"),
  "C11": ("E3 broker", "seeded simulation with quote gaps; identities re-evaluated after every operation",
          "After every operation: get_quote equals the last quote delivered and is never dated after the clock; position value = qty x bid; total = cash + sum; liquidation <= total (== without costs); cost basis / profit recomputed from the broker's own log.",
          A3, "5/E3/C11"),
  "C12": ("E3 broker", "seeded simulation with realised weights-map iteration orders",
          "At every diff the returned orders are compared as a set with the orders the property prescribes (computed from the broker's reported values and the real cost model), sells before buys, and the call is repeated with the weights map realised in another key order.",
          A3, "5/E3/C12"),
  # id: (engine label, technique, level text, level note, design ref)
  "C01": ("E1 exchange+server", "seeded simulation of exchange/server histories with step rules over snapshots",
          "Seeded search over interleavings of insert/delete/tick from several simulated clients on generated datasets (gaps, jumps, irregular clocks), bare exchange and server (direct and in-memory JSON path); every fill is checked against the pre-tick snapshot, the tick's own quotes and the clock at submission.",
          A1, "5/E1/C01"),
  "C02": ("E1 exchange+server", "seeded simulation with the property's fill table as executable oracle",
          "Every tick of every run is compared, as a multiset of fills and as a post-tick book, with the property's fill table evaluated on the pre-tick snapshot; prices are generated on the quote grid so exact-boundary cases occur constantly.",
          A1, "5/E1/C02"),
  "C03": ("E1 exchange+server", "seeded simulation with conservation invariants over snapshots and histories",
          "Structural conservation invariants (ids unique for life, admitted exactly once, at most one full fill, delete removes exactly one, admitted = filled + cancelled + resting) checked after every operation of long mixed histories with bad-cancel faults.",
          A1, "5/E1/C03"),
  "C07": ("E1 exchange+server, E5 threads", "seeded simulation of the server clock under client interleavings; seeded thread scheduling of the real handlers with a linearizability oracle",
          "Per backtest the k-th tick must do exactly what a clone of the exchange does on the harness's own row k (differential oracle), report has_next iff k<N and leave clock/fetch_quotes/now on date k+1; loop clients tick to the end (bounded liveness: exactly N ticks), others tick past it; a created backtest must answer every later request; other clients interleave; datasets are loaded date by date or symbol by symbol, with negative, huge and irregular dates, one in four through Serialize/Deserialize. Thread level: as for C08 (engine E5: real handlers on simulated threads, also two requests in flight on one worker; linearizable, no deadlock, no panic).",
          A1T, "5/E1/C07, 12.7"),
  "C08": ("E1 exchange+server, E2 twins, E5 threads", "seeded client scheduling (uniform and PCT-style) with digests and solo re-runs; seeded thread scheduling of the real handlers with a linearizability oracle",
          "Request level: ids are compared with every id ever handed out; after every request the digest of every other backtest must be unchanged; unknown targets (also near-miss dataset names) must be rejected without effect; a created backtest never vanishes; each backtest's response stream is compared with a solo re-run on a fresh server; TestClient runs as a third twin. Thread level: 2-4 simulated threads drive the real Uist and Jura actix handlers on one shared state (one thread in three with two requests in flight at a time), a seeded scheduler decides every lock hand-over, and the history must be linearizable against sequential in-process execution (also: no deadlock, no panic).",
          A1T, "5/E1/C08, 12.7"),
  "C18": ("E1 exchange+server", "seeded simulation with the property's IOC/GTC/trigger table as executable oracle",
          "Every Jura tick is compared with the property's table (one-shot IOC with 10% slippage, resting GTC, four trigger directions, child order kind/fields/fresh id announced, child not eligible on the firing tick) over all eight constructors plus deserialised orders with is_market=false and trigger_px != limit_px; what the exchange did structurally (who left the book, who appeared) is observed from snapshots.",
          A1, "5/E1/C18"),
  "C17": ("E1 exchange+server", "seeded simulation with adversarial batch layouts and sizes",
          "Batches of up to 300 (quick, plus one 4100-5000 batch in one run of 400) / 5000 (thorough) orders in iid, alternating, block, one-odd, sorted and reversed layouts; the admitted list must be a sells-first permutation of the submitted batch and the tail of the book, ids strictly growing over the life of the exchange, book and fills in ascending id.",
          A1, "5/E1/C17"),
}

NOT_APPLICABLE = [
  ("C13", "pure function of (budget, price, cost list): no state, clock, schedule, fault or interleaving for a simulator to own; random cost lists would be input generation in simulator vocabulary"),
  ("C14", "pure function of a snapshot vector; the simulated strategy only produces a small corner (inflation 0, one deposit) of the quantified domain"),
  ("C15", "pure function of a return vector (a defect in it is visible by inspection and noted in DESIGN.md section 7, D10, but this technique does not decide it)"),
  ("C19", "pure function of one timestamp over a finite calendar; the right tool is exhaustive enumeration, which is not this technique"),
]

def main():
    checks = []
    for pid in sorted(CHECKS):
        eng, tech, text, note, ref = CHECKS[pid]
        checks.append({
            "property_id": pid,
            "quick_cmd": f"./check {pid} --tier quick",
            "thorough_cmd": f"./check {pid} --tier thorough",
            "evidence_file": f"/verif/evidence/{pid}.json",
            "replay_cmd_template": "./check replay {path}",
            "engine": eng,
            "level_claimed": {"category": "exploration", "text": text, "design_ref": ref},
            "level_note": note,
            "technique": "deterministic simulation with fault injection: " + tech,
        })
    claimed = set(CHECKS)
    na = [{"property_id": p, "reason": r} for p, r in NOT_APPLICABLE]
    all_ids = [json.loads(l)["id"] for l in open("/verif/properties.jsonl")]
    for p in all_ids:
        if p not in claimed and p not in [x for x, _ in NOT_APPLICABLE]:
            na.append({"property_id": p, "reason": "check not built yet at this commit (planned, see DESIGN.md section 2)"})
    m = {
        "version": 1,
        "setup_cmd": "cd /verif/sim && CARGO_NET_OFFLINE=true cargo build --release --offline",
        "hooks": {
            "guard": "cargo feature `verif` (rotala/verif, alator/verif), off by default",
            "enable": "the simulator crate /verif/sim depends on /repo/rotala and /repo/example_clients/alator by path with features = [\"verif\"]",
            "baseline_off_cmd": "cd /repo && cargo test --workspace --no-fail-fast --offline",
            "source_commits": [l.split()[0] for l in HOOK_COMMITS][::-1],
            "add_only": True,
        },
        "engines": [
            {"name": "sim", "path": "/verif/sim", "serves_properties": sorted(claimed),
             "kind_free_text": "single-process deterministic simulator: one PRNG behind every choice, own executor inside a paused tokio clock (simulated time), transport seam with lazy / delayed / slow / lost requests and responses under a fault budget, seeded market model, client scheduler (uniform and PCT-style), thread scheduler over a mirrored copy of the server modules (baton passing at every lock operation, linearizability oracle), the shipped HTTP clients over a stand-in transport, replay files + ddmin shrinking + fresh-process replay verification"},
        ],
        "checks": checks,
        "not_applicable": sorted(na, key=lambda x: x["property_id"]),
        "notes": "Exit 0 held / 1 VIOLATION line / 2 harness or build error. VERIF_SEED and VERIF_TIER are honoured. Known findings: /verif/known_findings.json (all entries are `fixed`: eleven defects repaired by fix: commits in /repo, their minimised replays are re-executed first by the property's check). If a change to /repo makes the mirrored copy of rotala/src/http uncompilable, /verif/check rebuilds without the thread-level engines and the HTTP-client twins and prints a NOTE (loss of coverage, never an alarm). Seeded breaking changes and behaviour-preserving bundles used to test the checks: /verif/seeded (DESIGN.md 12.5, 12.8).",
    }
    json.dump(m, open("/verif/MANIFEST.json", "w"), indent=1)
    print("claimed", sorted(claimed), "n/a", [x["property_id"] for x in na])

main()
