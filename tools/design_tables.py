#!/usr/bin/env python3
"""Regenerates the sensitivity tables of DESIGN.md (between the BEGIN/END SENSITIVITY markers) from
/verif/seeded/*/meta.json and /tmp/mut/handmut.json (if present; otherwise the committed copy /verif/seeded/handmut.json)."""
import json, glob, os, re, shutil
rows = []
for d in sorted(glob.glob("/verif/seeded/C*-*")) + sorted(glob.glob("/verif/seeded/free*-*")):
    m = json.load(open(d + "/meta.json"))
    desc = m["needs_to_manifest_and_description"]
    first = [l.strip() for l in desc.splitlines() if l.strip()]
    title = first[0][:110] if first else ""
    patch = open(d + "/patch.diff").read()
    files = sorted(set(re.findall(r"^\+\+\+ b/(\S+)", patch, re.M)))
    det = m.get("detected_by", {})
    own = det.get(m["property"], {})
    rule = ""
    mm = re.search(r"(C\d+/[a-z0-9-]+ \[[^\]]*\])", own.get("what", ""))
    if mm: rule = mm.group(1)
    if not rule and "regression" in own.get("what", ""): rule = "regression replay of a fixed finding"
    runm = re.search(r"violation in run (\d+)", own.get("what", ""))
    rows.append((m["id"], ", ".join(os.path.basename(f) for f in files), "yes" if own.get("detected") else "**no** (see meta.json note)", rule, runm.group(1) if runm else "-", f'{own.get("wall_s","")}'))
out = ["<!-- BEGIN SENSITIVITY -->", "",
       "| seeded change | file(s) | caught by its property's quick check | rule that fired | failing run index | wall s |",
       "|---|---|---|---|---|---|"]
for r in rows:
    out.append("| " + " | ".join(r) + " |")
out.append("")
hm = "/tmp/mut/handmut.json"
if os.path.exists(hm):
    shutil.copy(hm, "/verif/seeded/handmut.json")
if os.path.exists("/verif/seeded/handmut.json"):
    h = json.load(open("/verif/seeded/handmut.json"))
    out += ["Hand-written mutants (tools/handmut.py; each compiles, the 50 tests were not run against them):", "",
            "| mutant | check | result | rule |", "|---|---|---|---|"]
    for r in h:
        mm = re.search(r"(C\d+/[a-z0-9-]+ \[[^\]]*\])", r["what"])
        rule = mm.group(1) if mm else ("regression replay of a fixed finding" if "regression" in r["what"] else "")
        out.append(f'| {r["mutant"]} | {r["check"]} | {r["result"]} | {rule} |')
    out += ["", "Notes: `u-sort-unstable` (`sort_by` -> `sort_unstable_by`) and `b-liq-le-to-lt` (`<=` -> `<` in the",
            "whole-position branch of the liquidation) are *equivalent* mutants on this toolchain and input space: the",
            "first still yields a sells-first partition for every batch explored (up to 300 orders in the quick tier; a",
            "sub-agent probed 5000 independently), the second takes the other branch exactly when position value ==",
            "remaining amount, where both branches sell the whole position. A miss there is the correct answer.", ""]
    out.append("")
out.append("<!-- END SENSITIVITY -->")
s = open("/verif/DESIGN.md").read()
block = "\n".join(out)
if "<!-- BEGIN SENSITIVITY -->" in s:
    s = re.sub(r"<!-- BEGIN SENSITIVITY -->.*<!-- END SENSITIVITY -->", lambda _: block, s, flags=re.S)
else:
    s += "\n" + block + "\n"
open("/verif/DESIGN.md", "w").write(s)
print(len(rows), "seeded rows")
