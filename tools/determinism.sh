#!/bin/sh
# Determinism proof: every engine, N seeds, each seed generated and replayed, in three separate
# processes (hence three OS hash seeds), with 16 and with 1 worker; all event-log hashes must agree.
N=${1:-2000}
cd /verif || exit 2
./check determinism --seeds 1 >/dev/null || exit 2
B=/verif/sim/target/release/sim
D=/verif/sim/target/tmp/det; mkdir -p $D
$B determinism --seeds $N --jobs 16 > $D/a.txt
$B determinism --seeds $N --jobs 16 > $D/b.txt
$B determinism --seeds $N --jobs 1  > $D/c.txt
MIS=$(grep -c MISMATCH $D/a.txt $D/b.txt $D/c.txt | awk -F: '{s+=$2} END{print s}')
if cmp -s $D/a.txt $D/b.txt && cmp -s $D/a.txt $D/c.txt && [ "$MIS" = "0" ]; then
  L=$(wc -l < $D/a.txt)
  printf '{"seeds_per_engine": %s, "lines_compared": %s, "processes": 3, "worker_counts": [16, 16, 1], "generate_vs_replay_mismatches": 0, "cross_process_differences": 0, "sha256": "%s"}\n' "$N" "$L" "$(sha256sum $D/a.txt | cut -d' ' -f1)" > /verif/determinism.json
  echo "DETERMINISTIC: $L (engine, seed) pairs, 3 processes, generate == replay"; cat /verif/determinism.json
else
  echo "NONDETERMINISM"; diff $D/a.txt $D/b.txt | head; diff $D/a.txt $D/c.txt | head; grep MISMATCH $D/a.txt | head
  exit 1
fi
