#!/bin/sh
# tools/benign.sh <patch> [props...] : apply a behaviour-preserving change to /repo, run the quick checks
# (all sixteen by default), restore /repo. Every check must stay silent (exit 0).
P=$1; shift
PROPS=${*:-C01 C02 C03 C04 C05 C06 C07 C08 C09 C10 C11 C12 C16 C17 C18 C20}
[ -z "$(git -C /repo status --porcelain)" ] || { echo "/repo not clean"; exit 2; }
git -C /repo apply "$P" || exit 2
mkdir -p /tmp/mut/vdir/evidence
[ -f /tmp/mut/vdir/known_findings.json ] || { cp /verif/known_findings.json /tmp/mut/vdir/; cp -r /verif/findings /tmp/mut/vdir/; }
for p in $PROPS; do
  printf "%s: " $p
  VERIF_DIR=/tmp/mut/vdir /verif/check $p --tier quick 2>&1 | grep -E "^OK|violation in|HARNESS|VIOLATION|NOTE" | tr '\n' ' ' | cut -c1-500
  echo
done
git -C /repo checkout -- . ; git -C /repo clean -fdq
