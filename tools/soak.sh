#!/bin/sh
# Soak: every quick (or thorough) check under other VERIF_SEED values, to hunt false alarms. Meant to be
# run from a snapshot:   vp run --with-repo -- sh tools/soak.sh 2 31 [quick|thorough]
# It never writes into /verif: evidence and replays go to the snapshot (VERIF_DIR).
FROM=${1:-2}; TO=${2:-11}; TIER=${3:-quick}
R=${VP_RUN_REPO:-/repo}
if [ "$R" != "/repo" ]; then sed -i "s#/repo/#$R/#g" sim/Cargo.toml sim/build.rs; fi
export CARGO_NET_OFFLINE=true
cargo build --release --offline --manifest-path sim/Cargo.toml >sim/build.log 2>&1 || { echo "BUILD FAILED"; tail -20 sim/build.log; exit 2; }
export VERIF_DIR=$PWD
for s in $(seq $FROM $TO); do
  for p in C01 C02 C03 C04 C05 C06 C07 C08 C09 C10 C11 C12 C16 C17 C18 C20; do
    printf "seed=%s %s: " $s $p
    VERIF_SEED=$s sim/target/release/sim check $p --tier $TIER 2>&1 | grep -E "^OK|violation in|HARNESS|VIOLATION|NOTE" | tr '\n' ' ' | cut -c1-600
    echo
  done
done
echo SOAK-DONE
