#!/usr/bin/env python3
"""Sensitivity sweep with hand-written mutants: apply each to /repo, run the named checks (quick tier, evidence
and replays redirected to a scratch VERIF_DIR), undo. Every mutant compiles; whether the 50 tests pass with it is
not established here (the sub-agent changes under /verif/seeded are the confirmed ones)."""
import json, os, shutil, subprocess, sys, time
R = "/repo/"
U = "rotala/src/exchange/uist_v1.rs"; J = "rotala/src/exchange/jura_v1.rs"
HU = "rotala/src/http/uist.rs"; HJ = "rotala/src/http/jura.rs"
BM = "example_clients/alator/src/broker/mod.rs"; BU = "example_clients/alator/src/broker/uist.rs"
ST = "example_clients/alator/src/strategy/staticweight.rs"
M = [
 ("u-limitbuy-strict", U, "if order_price >= Some(quote_copy.ask) {\n                            Some(Self::execute_buy", "if order_price > Some(quote_copy.ask) {\n                            Some(Self::execute_buy", ["C02"]),
 ("u-limitsell-strict", U, "if order_price <= Some(quote_copy.bid) {\n                            Some(Self::execute_sell", "if order_price < Some(quote_copy.bid) {\n                            Some(Self::execute_sell", ["C02"]),
 ("u-stopbuy-strict", U, "if order_price <= Some(quote_copy.ask) {", "if order_price < Some(quote_copy.ask) {", ["C02"]),
 ("u-stopsell-strict", U, "if order_price >= Some(quote_copy.bid) {", "if order_price > Some(quote_copy.bid) {", ["C02"]),
 ("u-buy-at-bid-for-limit", U, "OrderType::LimitBuy => {\n                        //Unwrap is safe because LimitBuy will always have a price\n                        let order_price = order.price;", "OrderType::LimitBuy => {\n                        let order_price = order.price;\n                        let quote_copy = UistQuote { ask: quote_copy.bid, ..quote_copy };", ["C02"]),
 ("u-insert-before-execute", U, "        let executed_trades = self.orderbook.execute_orders(quotes);\n        for executed_trade in &executed_trades {\n            self.trade_log.push(executed_trade.clone());\n        }\n\n        self.sort_order_buffer();\n        for order in self.order_buffer.iter_mut() {\n            self.orderbook.insert_order(order);\n        }\n",
  "        self.sort_order_buffer();\n        for order in self.order_buffer.iter_mut() {\n            self.orderbook.insert_order(order);\n        }\n        let executed_trades = self.orderbook.execute_orders(quotes);\n        for executed_trade in &executed_trades {\n            self.trade_log.push(executed_trade.clone());\n        }\n", ["C01", "C03"]),
 ("u-sort-unstable", U, "self.order_buffer.sort_by(|a, _b| match a.get_order_type() {", "self.order_buffer.sort_unstable_by(|a, _b| match a.get_order_type() {", ["C17"]),
 ("u-sort-small-only", U, "    fn sort_order_buffer(&mut self) {\n", "    fn sort_order_buffer(&mut self) {\n        if self.order_buffer.len() > 32 {\n            return;\n        }\n", ["C17"]),
 ("u-id-from-len", U, "order.set_order_id(self.last_inserted);", "order.set_order_id(self.inner.len() as u64);", ["C03", "C17"]),
 ("u-delete-only-first-completed", U, "        for order_id in completed_orderids {\n            self.delete_order(order_id);\n        }", "        if let Some(order_id) = completed_orderids.first() {\n            self.delete_order(*order_id);\n        }", ["C03", "C02"]),
 ("u-tradelog-skip", U, "        for executed_trade in &executed_trades {\n            self.trade_log.push(executed_trade.clone());\n        }", "        for executed_trade in executed_trades.iter().take(1) {\n            self.trade_log.push(executed_trade.clone());\n        }", ["C03"]),
 ("hu-clock-before-exchange", HU, "                if let Some(quotes) = dataset.get_quotes(&backtest.date) {\n                    let mut res = backtest.exchange.tick(quotes);\n                    executed_trades.append(&mut res.0);\n                    inserted_orders.append(&mut res.1);\n                }\n\n                let new_pos = backtest.pos + 1;\n                if dataset.has_next(new_pos) {\n                    has_next = true;\n                    backtest.date = *dataset.get_date(new_pos).unwrap();\n                }",
  "                let new_pos = backtest.pos + 1;\n                if dataset.has_next(new_pos) {\n                    has_next = true;\n                    backtest.date = *dataset.get_date(new_pos).unwrap();\n                }\n                if let Some(quotes) = dataset.get_quotes(&backtest.date) {\n                    let mut res = backtest.exchange.tick(quotes);\n                    executed_trades.append(&mut res.0);\n                    inserted_orders.append(&mut res.1);\n                }", ["C01", "C07"]),
 ("hu-hasnext-plus1", HU, "                if dataset.has_next(new_pos) {\n                    has_next = true;\n                    backtest.date", "                if dataset.has_next(new_pos + 1) {\n                    has_next = true;\n                    backtest.date", ["C07"]),
 ("hu-insert-wrong-backtest", HU, "    pub fn insert_order(&mut self, order: Order, backtest_id: BacktestId) -> Option<()> {\n        if let Some(backtest) = self.backtests.get_mut(&backtest_id) {", "    pub fn insert_order(&mut self, order: Order, backtest_id: BacktestId) -> Option<()> {\n        let backtest_id = if self.backtests.len() > 2 { backtest_id.min(2) } else { backtest_id };\n        if let Some(backtest) = self.backtests.get_mut(&backtest_id) {", ["C08"]),
 ("hu-status-404", HU, "UistV1Error::UnknownBacktest => actix_web::http::StatusCode::BAD_REQUEST,", "UistV1Error::UnknownBacktest => actix_web::http::StatusCode::NOT_FOUND,", ["C20", "C08"]),
 ("hu-now-hasnext-plus1", HU, "                if dataset.has_next(backtest.pos) {\n                    has_next = true;\n                }\n                Ok(web::Json(NowResponse { now, has_next }))", "                if dataset.has_next(backtest.pos + 1) {\n                    has_next = true;\n                }\n                Ok(web::Json(NowResponse { now, has_next }))", ["C07", "C20", "C16"]),
 ("hu-delete-handler-wrong-id", HU, "if let Some(()) = uist.delete_order(delete_order.order_id, backtest_id) {", "if let Some(()) = uist.delete_order(backtest_id, backtest_id) {", ["C20"]),
 ("j-ioc-retry", J, "                                    order.attempted_execution = true;\n", "", ["C18"]),
 ("j-ioc-buy-slippage-sign", J, "if price * (1.0 + self.slippage) >= quote_copy.ask {", "if price * (1.0 - self.slippage) >= quote_copy.ask {", ["C18"]),
 ("j-gtc-sell-strict", J, "} else if price <= quote_copy.bid {\n                                    should_delete.push((order.order.asset, order.order_id));\n                                    Some(Self::execute_sell(quote_copy, order, date))\n                                } else {\n                                    None\n                                }\n                            }\n                            _ => unimplemented!(),", "} else if price < quote_copy.bid {\n                                    should_delete.push((order.order.asset, order.order_id));\n                                    Some(Self::execute_sell(quote_copy, order, date))\n                                } else {\n                                    None\n                                }\n                            }\n                            _ => unimplemented!(),", ["C18"]),
 ("j-tp-buy-child-kind-swapped", J, "                                    if quote_copy.ask <= trigger.trigger_px {\n                                        if trigger.is_market {\n                                            should_insert.push(Self::create_ioc_trigger(order))\n                                        } else {\n                                            should_insert.push(Self::create_gtc_trigger(order))\n                                        }", "                                    if quote_copy.ask <= trigger.trigger_px {\n                                        if !trigger.is_market {\n                                            should_insert.push(Self::create_ioc_trigger(order))\n                                        } else {\n                                            should_insert.push(Self::create_gtc_trigger(order))\n                                        }", ["C18"]),
 ("j-delete-ignores-asset", J, "if order_id == order.order_id && asset == order.order.asset {", "if order_id == order.order_id {", ["C03"]),
 ("j-child-loses-limit", J, "            limit_px: order.order.limit_px.clone(),\n            sz: order.order.sz.clone(),\n            reduce_only: order.order.reduce_only,", "            limit_px: order.order.sz.clone(),\n            sz: order.order.sz.clone(),\n            reduce_only: order.order.reduce_only,", ["C18"]),
 ("j-fill-sell-at-ask", J, "    fn execute_sell(quote: JuraQuote, order: &InnerOrder, date: i64) -> Fill {\n        let trade_price = quote.bid;", "    fn execute_sell(quote: JuraQuote, order: &InnerOrder, date: i64) -> Fill {\n        let trade_price = quote.ask;", ["C18"]),
 ("b-debit-instead-of-force", BU, "TradeType::Buy => self.debit_force(&trade.value),", "TradeType::Buy => self.debit(&trade.value),", ["C04"]),
 ("b-pending-not-removed", BU, "                    if updated_pending == 0.0 {\n                        self.pending_orders.remove(&trade.symbol);\n                    } else {", "                    if updated_pending < 0.0 {\n                        self.pending_orders.remove(&trade.symbol);\n                    } else {", ["C05"]),
 ("b-cash-check-ge", BM, "BrokerOrderType::MarketBuy | BrokerOrderType::LimitBuy | BrokerOrderType::StopBuy => {\n                if self.get_cash_balance() > value {", "BrokerOrderType::MarketBuy | BrokerOrderType::LimitBuy | BrokerOrderType::StopBuy => {\n                if self.get_cash_balance() >= value {", ["C06"]),
 ("b-holding-check-strict", BM, "                if holding >= order.get_shares() {", "                if holding > order.get_shares() {", ["C06"]),
 ("b-buffer-100", BM, "let plus_buffer = shortfall + 1000.0;", "let plus_buffer = shortfall + 100.0;", ["C09", "C10"]),
 ("b-deposit-in-failed", BM, "    fn deposit_cash(&mut self, cash: &f64) -> BrokerCashEvent {\n        match self.get_broker_state() {\n            BrokerState::Failed => {", "    fn deposit_cash(&mut self, cash: &f64) -> BrokerCashEvent {\n        match self.get_broker_state() {\n            BrokerState::Failed if *cash >= 50_000.0 => {\n                self.credit(cash);\n                BrokerCashEvent::DepositSuccess(*cash)\n            }\n            BrokerState::Failed => {", ["C09"]),
 ("b-liq-le-to-lt", BM, "                if position_value <= total_sold {", "                if position_value < total_sold {", ["C10"]),
 ("b-value-at-ask", BM, "            let price = quote.get_bid();\n            if let Some(qty) = self.get_position_qty(symbol) {", "            let price = quote.get_ask();\n            if let Some(qty) = self.get_position_qty(symbol) {", ["C11"]),
 ("b-quotes-replaced-not-merged", BU, "                //Update prices, these prices are not tradable\n                for (symbol, quote) in &quotes_response.quotes {", "                //Update prices, these prices are not tradable\n                self.latest_quotes.clear();\n                for (symbol, quote) in &quotes_response.quotes {", ["C11"]),
 ("b-costbasis-no-reset", BU, "                if (cum_qty).eq(&0.0) {\n                    cum_val = f64::default();\n                }", "", ["C11"]),
 ("b-diff-round", BM, "                (costs.0 / costs.1).floor().max(0.0)\n", "                (costs.0 / costs.1).round().max(0.0)\n", ["C12"]),
 ("b-diff-buys-first", BM, "        orders.extend(sell_orders);\n        orders.extend(buy_orders);", "        orders.extend(buy_orders);\n        orders.extend(sell_orders);", ["C12"]),
 ("b-diff-uses-total-not-liq", BM, "        let total_value = self.get_liquidation_value();\n        if (total_value).eq(&0.0) {", "        let total_value = self.get_total_value();\n        if (total_value).eq(&0.0) {", ["C12"]),
 ("s-snapshot-before-check", ST, "        self.brkr.check().await;\n        let now = self.brkr.now();", "        let snap0 = self.get_snapshot();\n        self.brkr.check().await;\n        let now = self.brkr.now();\n        let _ = snap0.date;", []),
 ("s-withdraw-counts-failure", ST, "        info!(\"STRATEGY: Failed to withdraw {:?} from strategy\", cash);\n        StrategyEvent::WithdrawFailure(*cash)", "        info!(\"STRATEGY: Failed to withdraw {:?} from strategy\", cash);\n        self.net_cash_flow -= *cash;\n        StrategyEvent::WithdrawFailure(*cash)", ["C16"]),
 ("s-run-one-extra", ST, "        while self.brkr.has_next() {\n            self.update().await;\n        }", "        while self.brkr.has_next() {\n            self.update().await;\n        }\n        self.update().await;", ["C16"]),
 ("s-value-uses-liquidation", ST, "            portfolio_value: self.brkr.get_total_value(),", "            portfolio_value: self.brkr.get_liquidation_value(),", ["C16"]),
]

def sh(cmd, cwd=None, timeout=1800):
    p = subprocess.run(cmd, shell=True, cwd=cwd, capture_output=True, text=True, timeout=timeout)
    return p.returncode, p.stdout + p.stderr

def main():
    only = sys.argv[1:]
    os.makedirs("/tmp/mut/vdir/evidence", exist_ok=True)
    shutil.copy("/verif/known_findings.json", "/tmp/mut/vdir/known_findings.json")
    shutil.copytree("/verif/findings", "/tmp/mut/vdir/findings", dirs_exist_ok=True)
    rows = []
    for name, f, old, new, props in M:
        if only and not any(o in name for o in only):
            continue
        if not props:
            continue
        rc, o = sh("git -C /repo status --porcelain")
        assert o.strip() == "", "/repo not clean"
        s = open(R + f).read()
        if s.count(old) != 1:
            print(f"{name}: pattern found {s.count(old)} times, SKIPPED"); continue
        open(R + f, "w").write(s.replace(old, new))
        try:
            for p in props:
                t0 = time.time()
                rc, o = sh(f"VERIF_DIR=/tmp/mut/vdir /verif/check {p} --tier quick 2>&1", cwd="/verif")
                v = [l for l in o.splitlines() if "violation in run" in l or "regression" in l or "HARNESS" in l]
                res = "DETECTED" if (rc == 1 and "VIOLATION property=" in o) else ("HARNESS-ERROR" if rc == 2 else "MISSED")
                rows.append({"mutant": name, "check": p, "result": res, "wall_s": round(time.time() - t0, 1), "what": v[0][:220] if v else ""})
                print(f"{name:34s} {p} {res:9s} {rows[-1]['wall_s']:6.1f}s  {rows[-1]['what'][:200]}", flush=True)
        finally:
            sh("git -C /repo checkout -- .")
    old = json.load(open("/tmp/mut/handmut.json")) if os.path.exists("/tmp/mut/handmut.json") else []
    done = {(r["mutant"], r["check"]) for r in rows}
    rows = [r for r in old if (r["mutant"], r["check"]) not in done] + rows
    json.dump(rows, open("/tmp/mut/handmut.json", "w"), indent=1)

main()
