//! Uist exchange oracle: per-exchange tracker evaluating the step rules of C01, C02, C03 and C17 on
//! (pre-snapshot, quotes, tick output, post-snapshot). Each oracle reads from the SUT what is another
//! property's subject (e.g. C02 takes the resting book from the snapshot) and models only its own.

use crate::common::{Ctx, X};
use crate::rule;
use rotala::exchange::uist_v1::{Order, OrderType, Trade, TradeType, VerifSnapshot};
use rotala::input::penelope::PenelopeQuoteByDate;
use serde::{Deserialize, Serialize};
use std::collections::{BTreeMap, HashMap, HashSet};

#[derive(Clone, Copy, Debug, PartialEq, Eq, Serialize, Deserialize)]
pub enum Typ {
    MarketSell,
    MarketBuy,
    LimitSell,
    LimitBuy,
    StopSell,
    StopBuy,
}

impl Typ {
    pub const ALL: [Typ; 6] =
        [Typ::MarketSell, Typ::MarketBuy, Typ::LimitSell, Typ::LimitBuy, Typ::StopSell, Typ::StopBuy];
    pub fn to_sut(self) -> OrderType {
        match self {
            Typ::MarketSell => OrderType::MarketSell,
            Typ::MarketBuy => OrderType::MarketBuy,
            Typ::LimitSell => OrderType::LimitSell,
            Typ::LimitBuy => OrderType::LimitBuy,
            Typ::StopSell => OrderType::StopSell,
            Typ::StopBuy => OrderType::StopBuy,
        }
    }
    pub fn from_sut(t: OrderType) -> Typ {
        match t {
            OrderType::MarketSell => Typ::MarketSell,
            OrderType::MarketBuy => Typ::MarketBuy,
            OrderType::LimitSell => Typ::LimitSell,
            OrderType::LimitBuy => Typ::LimitBuy,
            OrderType::StopSell => Typ::StopSell,
            OrderType::StopBuy => Typ::StopBuy,
        }
    }
    pub fn is_buy(self) -> bool {
        matches!(self, Typ::MarketBuy | Typ::LimitBuy | Typ::StopBuy)
    }
    pub fn is_market(self) -> bool {
        matches!(self, Typ::MarketBuy | Typ::MarketSell)
    }
    pub fn name(self) -> &'static str {
        match self {
            Typ::MarketSell => "market-sell",
            Typ::MarketBuy => "market-buy",
            Typ::LimitSell => "limit-sell",
            Typ::LimitBuy => "limit-buy",
            Typ::StopSell => "stop-sell",
            Typ::StopBuy => "stop-buy",
        }
    }
}

#[derive(Clone, Debug, Serialize, Deserialize)]
pub struct OrderSpec {
    pub typ: Typ,
    pub symbol: String,
    pub shares: X,
    pub price: Option<X>,
    /// order_id pre-set by the client (the exchange must overwrite it on admission)
    pub preset_id: Option<u64>,
}

impl OrderSpec {
    pub fn to_sut(&self) -> Order {
        let mut o = match self.typ {
            Typ::MarketBuy => Order::market_buy(self.symbol.clone(), self.shares.0),
            Typ::MarketSell => Order::market_sell(self.symbol.clone(), self.shares.0),
            Typ::LimitBuy => Order::limit_buy(self.symbol.clone(), self.shares.0, self.price.unwrap().0),
            Typ::LimitSell => Order::limit_sell(self.symbol.clone(), self.shares.0, self.price.unwrap().0),
            Typ::StopBuy => Order::stop_buy(self.symbol.clone(), self.shares.0, self.price.unwrap().0),
            Typ::StopSell => Order::stop_sell(self.symbol.clone(), self.shares.0, self.price.unwrap().0),
        };
        o.order_id = self.preset_id;
        o
    }
    pub fn tag(&self) -> u64 {
        self.shares.0.floor() as u64
    }
}

/// The property's fill table (C02), evaluated on the order as the SUT stores it.
pub fn should_fill(o: &Order, bid: f64, ask: f64) -> bool {
    match o.order_type {
        OrderType::MarketBuy | OrderType::MarketSell => true,
        OrderType::LimitBuy => o.price.map(|p| ask <= p).unwrap_or(false),
        OrderType::LimitSell => o.price.map(|p| bid >= p).unwrap_or(false),
        OrderType::StopBuy => o.price.map(|p| ask >= p).unwrap_or(false),
        OrderType::StopSell => o.price.map(|p| bid <= p).unwrap_or(false),
    }
}

#[derive(Clone, Copy, Debug, PartialEq, Eq)]
pub enum St {
    Buffered,
    Resting,
    Filled,
    Cancelled,
}

#[derive(Clone, Debug)]
pub struct Rec {
    pub spec: OrderSpec,
    pub status: St,
    pub id: Option<u64>,
    /// server clock (date) when the order was submitted
    pub submit_clock: Option<i64>,
    /// cond seen false / true while resting with a quote (probe)
    pub seen_false: bool,
    pub seen_true: bool,
    pub waited_gap_ticks: u32,
}

impl Rec {
    pub fn new(spec: &OrderSpec, submit_clock: Option<i64>) -> Self {
        Rec { spec: spec.clone(), status: St::Buffered, id: None, submit_clock, seen_false: false, seen_true: false, waited_gap_ticks: 0 }
    }
}

/// Orders are identified by the id the exchange shows on admission; quantities need not be unique
/// (equal orders are interchangeable, and a batch is matched to what was submitted field by field).
#[derive(Default)]
pub struct ExTracker {
    pub recs: Vec<Rec>,
    pub by_id: BTreeMap<u64, usize>,
    pub buffered: Vec<usize>,
    pub max_id: Option<u64>,
    pub ticks: u64,
    /// floats cross JSON in this run: compare within 1e-12 instead of bit-exactly
    pub json: bool,
}

fn order_eq_fields(a: &Order, b: &Order) -> bool {
    a.order_id == b.order_id && order_eq_body(a, b)
}

fn order_eq_body(a: &Order, b: &Order) -> bool {
    a.order_type == b.order_type
        && a.symbol == b.symbol
        && a.shares.to_bits() == b.shares.to_bits()
        && a.price.map(f64::to_bits) == b.price.map(f64::to_bits)
}

pub fn fmt_order(o: &Order) -> String {
    format!("{{id:{:?} {:?} {} x{:?} @{:?}}}", o.order_id, o.order_type, o.symbol, o.shares, o.price)
}

pub fn fmt_trade(t: &Trade) -> String {
    format!("{{{:?} {} qty={:?} value={:?} date={}}}", t.typ, t.symbol, t.quantity, t.value, t.date)
}

fn typ_num(t: &TradeType) -> u8 {
    match t {
        TradeType::Buy => 0,
        TradeType::Sell => 1,
    }
}

type TradeKey = (u64, String, u64, i64, u8);
fn trade_key(t: &Trade) -> TradeKey {
    (t.quantity.to_bits(), t.symbol.clone(), t.value.to_bits(), t.date, typ_num(&t.typ))
}

/// what a fill and the order it belongs to have in common whatever the price: (symbol, quantity, side)
type BodyKey = (String, u64, u8);

fn body_key_order(o: &Order) -> BodyKey {
    (o.symbol.clone(), o.shares.to_bits(), if Typ::from_sut(o.order_type).is_buy() { 0 } else { 1 })
}

type OrderKey = (u8, String, u64, u64);
fn order_key(o: &Order) -> OrderKey {
    (Typ::from_sut(o.order_type) as u8, o.symbol.clone(), o.shares.to_bits(), o.price.map_or(u64::MAX, f64::to_bits))
}

impl ExTracker {
    pub fn new(json: bool) -> Self {
        ExTracker { json, ..Default::default() }
    }

    fn feq(&self, a: f64, b: f64) -> bool {
        if self.json {
            crate::common::close(a, b, 1e-12)
        } else {
            a.to_bits() == b.to_bits() || a == b
        }
    }

    fn spec_matches(&self, spec: &OrderSpec, o: &Order) -> bool {
        Typ::from_sut(o.order_type) == spec.typ
            && o.symbol == spec.symbol
            && self.feq(o.shares, spec.shares.0)
            && match (o.price, spec.price) {
                (None, None) => true,
                (Some(a), Some(b)) => self.feq(a, b.0),
                _ => false,
            }
    }

    fn body_key_trade(&self, t: &Trade) -> BodyKey {
        (t.symbol.clone(), t.quantity.to_bits(), typ_num(&t.typ))
    }

    /// Register a submitted order without looking at snapshots (big bursts).
    pub fn note_insert(&mut self, spec: &OrderSpec, submit_clock: Option<i64>) -> usize {
        let idx = self.recs.len();
        self.recs.push(Rec::new(spec, submit_clock));
        self.buffered.push(idx);
        idx
    }

    /// insert_order: the order goes to the buffer only.
    pub fn on_insert(&mut self, ctx: &mut Ctx, spec: &OrderSpec, pre: &VerifSnapshot, post: &VerifSnapshot, submit_clock: Option<i64>) {
        self.note_insert(spec, submit_clock);
        let sig = spec.typ.name();
        rule!(
            ctx, "C01", "insert-touches-book", sig,
            pre.book.len() == post.book.len() && pre.book.iter().zip(post.book.iter()).all(|(a, b)| order_eq_fields(a, b)),
            "insert_order changed the resting book: {} -> {} orders", pre.book.len(), post.book.len()
        );
        let ok = post.buffer.len() == pre.buffer.len() + 1
            && pre.buffer.iter().zip(post.buffer.iter()).all(|(a, b)| order_eq_fields(a, b))
            && post.buffer.last().map(|o| self.spec_matches(spec, o)).unwrap_or(false);
        rule!(
            ctx, "C03", "insert-buffered", sig, ok,
            "after insert the pending buffer is not old buffer + the order: pre={} post={} last={:?}",
            pre.buffer.len(), post.buffer.len(), post.buffer.last().map(fmt_order)
        );
        rule!(ctx, "C03", "insert-tradelog", sig, pre.trade_log.len() == post.trade_log.len(), "insert_order changed the trade log");
    }

    /// delete_order(id)
    pub fn on_delete(&mut self, ctx: &mut Ctx, id: u64, pre: &VerifSnapshot, post: &VerifSnapshot) {
        let pos = pre.book.iter().position(|o| o.order_id == Some(id));
        let kind = match (pos, self.by_id.get(&id).map(|i| self.recs[*i].status)) {
            (Some(_), _) => "resting",
            (None, Some(St::Filled)) => "stale-filled",
            (None, Some(St::Cancelled)) => "stale-cancelled",
            (None, Some(_)) => "stale-other",
            (None, None) => {
                if id >= pre.next_id && id < pre.next_id + pre.buffer.len() as u64 + 2 {
                    "not-yet-admitted"
                } else {
                    "never-issued"
                }
            }
        };
        match kind {
            "resting" => ctx.bump("f4_cancel_resting"),
            "stale-filled" => ctx.bump("f4_cancel_filled"),
            "stale-cancelled" => ctx.bump("f4_cancel_cancelled"),
            "not-yet-admitted" => ctx.bump("f4_cancel_not_yet_admitted"),
            _ => ctx.bump("f4_cancel_never_issued"),
        }
        let mut expect: Vec<&Order> = pre.book.iter().collect();
        if let Some(p) = pos {
            expect.remove(p);
        }
        let ok = expect.len() == post.book.len() && expect.iter().zip(post.book.iter()).all(|(a, b)| order_eq_fields(a, b));
        rule!(
            ctx, "C03", "delete", kind, ok,
            "delete_order({id}) [{kind}]: book {:?} -> {:?}",
            pre.book.iter().map(|o| o.order_id.unwrap_or(u64::MAX)).collect::<Vec<_>>(),
            post.book.iter().map(|o| o.order_id.unwrap_or(u64::MAX)).collect::<Vec<_>>()
        );
        let buf_ok = pre.buffer.len() == post.buffer.len() && pre.buffer.iter().zip(post.buffer.iter()).all(|(a, b)| order_eq_fields(a, b));
        rule!(
            ctx, "C03", "delete-buffer", kind,
            buf_ok && pre.trade_log.len() == post.trade_log.len() && pre.next_id == post.next_id,
            "delete_order({id}) touched the pending buffer, the trade log or the id counter"
        );
        rule!(
            ctx, "C17", "book-in-admission-order", "delete", post.book.windows(2).all(|w| w[0].order_id < w[1].order_id),
            "book after delete_order is not in admission (id) order: {:?}", post.book.iter().map(|o| o.order_id).collect::<Vec<_>>()
        );
        // follow what the exchange did
        for o in &pre.book {
            if let Some(oid) = o.order_id {
                if !post.book.iter().any(|p| p.order_id == Some(oid)) {
                    if let Some(i) = self.by_id.get(&oid) {
                        self.recs[*i].status = St::Cancelled;
                    }
                }
            }
        }
    }

    /// One tick. `expect_date`: Some(d_k) when driven through the server clock; `judge_clock`: the
    /// tick is one of the first N (C01's clause about the submission clock applies).
    #[allow(clippy::too_many_arguments)]
    pub fn on_tick(
        &mut self,
        ctx: &mut Ctx,
        pre: &VerifSnapshot,
        quotes: &PenelopeQuoteByDate,
        trades: &[Trade],
        admitted: &[Order],
        post: &VerifSnapshot,
        expect_date: Option<i64>,
        judge_clock: bool,
    ) {
        self.ticks += 1;

        // ---- buffer seen by the tick is what was inserted (C03) --------------------------------
        if ctx.wants("C03") {
            let mut a: Vec<OrderKey> = pre.buffer.iter().map(order_key).collect();
            let mut b: Vec<OrderKey> = self.buffered.iter().map(|i| order_key(&self.recs[*i].spec.to_sut())).collect();
            a.sort();
            b.sort();
            let ok = if self.json { a.len() == b.len() } else { a == b };
            rule!(
                ctx, "C03", "buffer-content", "tick", ok,
                "pending buffer before tick holds {} orders, {} were inserted since the last tick (or they differ)", a.len(), b.len()
            );
        }

        // ---- the book holds only orders that an earlier tick reported as admitted (C01, C03) ----------
        if ctx.wants("C01") || ctx.wants("C03") {
            let unknown: Vec<Option<u64>> = pre
                .book
                .iter()
                .filter(|o| o.order_id.and_then(|id| self.by_id.get(&id)).map_or(true, |i| self.recs[*i].status == St::Buffered))
                .map(|o| o.order_id)
                .take(5)
                .collect();
            if !unknown.is_empty() {
                ctx.fail("C01", "in-book-before-admission", "tick", format!("when the tick began the book already held orders no earlier tick reported as admitted (ids {:?}, {} submitted and waiting): they can fill on the tick that admits them", unknown, self.buffered.len()));
                ctx.fail("C03", "in-book-before-admission", "tick", format!("when the tick began the book already held orders no earlier tick reported as admitted (ids {:?})", unknown));
            }
        }

        // ==== A. expected fills by the property's table over the SUT's own pre-tick book ==========
        let mut expected: Vec<(Option<u64>, Trade)> = Vec::new();
        for o in &pre.book {
            let rec_idx = o.order_id.and_then(|id| self.by_id.get(&id).copied());
            if let Some(q) = quotes.get(&o.symbol) {
                let fill = should_fill(o, q.bid, q.ask);
                if let Some(i) = rec_idx {
                    let r = &mut self.recs[i];
                    if fill {
                        r.seen_true = true;
                    } else {
                        r.seen_false = true;
                    }
                    if !Typ::from_sut(o.order_type).is_market() {
                        if let Some(p) = o.price {
                            let edge = match o.order_type {
                                OrderType::LimitBuy | OrderType::StopBuy => q.ask == p,
                                _ => q.bid == p,
                            };
                            if edge {
                                ctx.bump("probe_price_exactly_at_limit");
                            }
                            let inside = q.bid < p && p < q.ask;
                            if inside {
                                ctx.bump("probe_price_strictly_inside_spread");
                            }
                        }
                        if r.seen_false && r.seen_true {
                            ctx.nontrivial |= ctx.focus == "C02";
                        }
                    }
                }
                if fill {
                    let is_buy = Typ::from_sut(o.order_type).is_buy();
                    let px = if is_buy { q.ask } else { q.bid };
                    expected.push((
                        o.order_id,
                        Trade { symbol: o.symbol.clone(), value: px * o.shares, quantity: o.shares, date: q.date, typ: if is_buy { TradeType::Buy } else { TradeType::Sell } },
                    ));
                    ctx.bump(if o.price.is_some() { "probe_cond_true" } else { "probe_market_fill" });
                } else {
                    ctx.bump("probe_cond_false");
                }
            } else {
                ctx.bump("f1_rest_across_gap");
                if let Some(i) = rec_idx {
                    self.recs[i].waited_gap_ticks += 1;
                    if self.recs[i].waited_gap_ticks >= 2 {
                        ctx.bump("probe_waited_2_gap_ticks");
                    }
                }
            }
        }

        // ==== B. what the exchange did, structurally ================================================
        let n_adm = admitted.len();
        let tail_start = post.book.len().saturating_sub(n_adm);
        let pre_ids: Vec<Option<u64>> = pre.book.iter().map(|o| o.order_id).collect();
        let pre_id_set: HashSet<Option<u64>> = pre_ids.iter().copied().collect();
        let tail_ok = post.book.len() >= n_adm
            && post.book[tail_start..].iter().zip(admitted.iter()).all(|(b, a)| order_eq_fields(b, a))
            && post.book[tail_start..].iter().all(|b| !pre_id_set.contains(&b.order_id));
        let survivors: &[Order] = if tail_ok { &post.book[..tail_start] } else { &post.book[..] };
        let survivor_ids: HashSet<Option<u64>> = survivors.iter().map(|s| s.order_id).collect();
        let gone: Vec<&Order> = pre.book.iter().filter(|o| !survivor_ids.contains(&o.order_id)).collect();
        let gone_ids: Vec<u64> = gone.iter().filter_map(|o| o.order_id).collect();

        // ---- C02: the fills are exactly the expected ones (as a multiset) ------------------------
        let mut got_keys: Vec<TradeKey> = trades.iter().map(trade_key).collect();
        let mut exp_keys: Vec<TradeKey> = expected.iter().map(|(_, t)| trade_key(t)).collect();
        let same_seq = got_keys == exp_keys;
        got_keys.sort();
        exp_keys.sort();
        let same_set = if self.json {
            got_keys.len() == exp_keys.len() && {
                let key = |t: &Trade| (t.symbol.clone(), typ_num(&t.typ), t.date);
                let mut g: Vec<&Trade> = trades.iter().collect();
                let mut e: Vec<&Trade> = expected.iter().map(|(_, t)| t).collect();
                g.sort_by(|a, b| key(a).cmp(&key(b)).then(a.quantity.partial_cmp(&b.quantity).unwrap_or(std::cmp::Ordering::Equal)));
                e.sort_by(|a, b| key(a).cmp(&key(b)).then(a.quantity.partial_cmp(&b.quantity).unwrap_or(std::cmp::Ordering::Equal)));
                g.iter().zip(e.iter()).all(|(a, b)| a.symbol == b.symbol && a.date == b.date && a.typ == b.typ && self.feq(a.quantity, b.quantity) && self.feq(a.value, b.value))
            }
        } else {
            got_keys == exp_keys
        };
        let quotes_txt = || {
            let mut q: Vec<_> = quotes.values().map(|q| (q.symbol.clone(), q.bid, q.ask, q.date)).collect();
            q.sort_by(|a, b| a.0.cmp(&b.0));
            format!("{:?}", q)
        };
        if ctx.wants("C02") && !same_set {
            let mut sig = "fills";
            for (id, t) in &expected {
                if !trades.iter().any(|g| trade_key(g) == trade_key(t)) {
                    if let Some(o) = pre.book.iter().find(|o| o.order_id == *id) {
                        sig = Typ::from_sut(o.order_type).name();
                    }
                    break;
                }
            }
            if sig == "fills" {
                for g in trades {
                    if !expected.iter().any(|(_, t)| trade_key(g) == trade_key(t)) {
                        if let Some(o) = pre.book.iter().find(|o| body_key_order(o) == self.body_key_trade(g)) {
                            sig = Typ::from_sut(o.order_type).name();
                        }
                        break;
                    }
                }
            }
            ctx.fail(
                "C02", "fill-set", sig,
                format!(
                    "tick fills differ from the fill table: got [{}] expected [{}] book [{}] quotes {}",
                    trades.iter().map(fmt_trade).collect::<Vec<_>>().join(", "),
                    expected.iter().map(|(_, t)| fmt_trade(t)).collect::<Vec<_>>().join(", "),
                    pre.book.iter().map(fmt_order).collect::<Vec<_>>().join(", "),
                    quotes_txt()
                ),
            );
        }
        // which orders left the book must be the ones the table fills: an order whose condition is
        // not met (or that has no quote) keeps resting
        if ctx.wants("C02") && same_set {
            let mut a = gone_ids.clone();
            let mut b: Vec<u64> = expected.iter().filter_map(|(id, _)| *id).collect();
            a.sort_unstable();
            b.sort_unstable();
            if a != b {
                let odd = a.iter().find(|x| !b.contains(x)).or_else(|| b.iter().find(|x| !a.contains(x))).copied();
                let sig = odd.and_then(|id| pre.book.iter().find(|o| o.order_id == Some(id))).map_or("book", |o| Typ::from_sut(o.order_type).name());
                ctx.fail(
                    "C02", "resting-vanished-or-filled-stays", sig,
                    format!(
                        "orders that left the book on this tick {:?}, orders whose fill condition is met {:?}; book [{}] quotes {}",
                        a, b, pre.book.iter().map(fmt_order).collect::<Vec<_>>().join(", "), quotes_txt()
                    ),
                );
            }
        }
        // ---- C17: fills are reported in book order ---------------------------------------------
        if same_set && !self.json {
            rule!(
                ctx, "C17", "fill-order", "tick", same_seq,
                "fills not in book (admission) order: got [{}] expected [{}]",
                trades.iter().map(fmt_trade).collect::<Vec<_>>().join(", "),
                expected.iter().map(|(_, t)| fmt_trade(t)).collect::<Vec<_>>().join(", ")
            );
        }

        // ---- C03 (structure): every fill has exactly one departing order and vice versa -----------
        let mut dep: Vec<BodyKey> = gone.iter().map(|o| body_key_order(o)).collect();
        let mut fil: Vec<BodyKey> = trades.iter().map(|t| self.body_key_trade(t)).collect();
        dep.sort();
        fil.sort();
        let structural_ok = if self.json { dep.len() == fil.len() } else { dep == fil };
        if !structural_ok {
            // classify: a fill with no departing order, or a departure without a fill
            let mut unmatched_fills: Vec<&Trade> = Vec::new();
            let mut pool = dep.clone();
            for t in trades {
                let k = self.body_key_trade(t);
                if let Some(p) = pool.iter().position(|x| *x == k) {
                    pool.remove(p);
                } else {
                    unmatched_fills.push(t);
                }
            }
            for t in &unmatched_fills {
                let k = self.body_key_trade(t);
                // an order of this very batch?
                let in_batch = self.buffered.iter().any(|i| body_key_order(&self.recs[*i].spec.to_sut()) == k) || admitted.iter().any(|o| body_key_order(o) == k && !pre_ids.contains(&o.order_id));
                let still_resting = survivors.iter().any(|o| body_key_order(o) == k);
                if in_batch && !pre.book.iter().any(|o| body_key_order(o) == k) {
                    ctx.fail("C01", "same-tick-fill", "tick", format!("an order submitted since the last tick was filled by the tick that admits it: {}", fmt_trade(t)));
                    ctx.fail("C03", "fill-unadmitted", "tick", format!("fill {} belongs to an order that was not yet admitted", fmt_trade(t)));
                } else if still_resting {
                    ctx.fail("C03", "filled-stays", "tick", format!("fill {} but the order it belongs to is still resting: it can fill again", fmt_trade(t)));
                } else {
                    ctx.fail("C03", "phantom-fill", "tick", format!("fill {} matches no order that left the book (double fill or fill of a dead order)", fmt_trade(t)));
                }
            }
            if !pool.is_empty() {
                ctx.fail(
                    "C03", "lost-order", "tick",
                    format!("{} order(s) left the book without a fill or a cancel: {:?}; fills [{}]", pool.len(), pool, trades.iter().map(fmt_trade).collect::<Vec<_>>().join(", ")),
                );
            }
        }
        // survivors keep their place and their fields
        {
            let mut it = pre.book.iter();
            let mut ok = true;
            for s in survivors {
                match it.by_ref().find(|o| o.order_id == s.order_id) {
                    Some(o) => {
                        if !order_eq_body(o, s) {
                            ctx.fail("C02", "resting-changed", Typ::from_sut(o.order_type).name(), format!("resting order changed across a tick: {} -> {}", fmt_order(o), fmt_order(s)));
                        }
                    }
                    None => {
                        ok = false;
                        break;
                    }
                }
            }
            rule!(
                ctx, "C17", "admitted-not-in-book", "tick", tail_ok,
                "the {} orders reported as admitted are not the tail of the book after the tick: book {:?}", n_adm, post.book.iter().map(|o| o.order_id).collect::<Vec<_>>()
            );
            rule!(
                ctx, "C03", "book-conservation", "tick", ok && tail_ok,
                "book after tick {:?} is not (a subsequence of the book before {:?}) followed by the admitted batch {:?}",
                post.book.iter().map(|o| o.order_id).collect::<Vec<_>>(), pre_ids, admitted.iter().map(|o| o.order_id).collect::<Vec<_>>()
            );
        }

        // ---- per fill: C01 (dated with and priced from this tick's quotes), C07 ---------------------
        for t in trades {
            let sig = "fill";
            match quotes.get(&t.symbol) {
                None => ctx.fail("C01", "fill-without-quote", sig, format!("fill {} but the tick carried no quote for {}", fmt_trade(t), t.symbol)),
                Some(q) => {
                    rule!(ctx, "C01", "fill-date", sig, t.date == q.date, "fill {} dated {} but this tick's quote is dated {}", fmt_trade(t), t.date, q.date);
                    rule!(
                        ctx, "C01", "fill-price", sig,
                        self.feq(t.value, q.ask * t.quantity) || self.feq(t.value, q.bid * t.quantity),
                        "fill {} not priced from this tick's quote bid={:?} ask={:?}", fmt_trade(t), q.bid, q.ask
                    );
                }
            }
            if let Some(d) = expect_date {
                rule!(ctx, "C07", "fill-date", "tick", t.date == d, "tick matched against date {} produced a fill dated {}", d, t.date);
            }
            ctx.bump("fills");
        }
        // ---- departing orders: status, C03 at most once, C01 submission clock ----------------------
        for o in &gone {
            let Some(id) = o.order_id else { continue };
            let Some(&i) = self.by_id.get(&id) else { continue };
            let sig = self.recs[i].spec.typ.name();
            match self.recs[i].status {
                St::Resting => {}
                St::Filled => ctx.fail("C03", "double-fill", sig, format!("order id {id} left the book twice")),
                St::Cancelled => ctx.fail("C03", "fill-after-cancel", sig, format!("cancelled order id {id} was still in the book")),
                St::Buffered => {}
            }
            if judge_clock {
                if let (Some(c), Some(q)) = (self.recs[i].submit_clock, quotes.get(&o.symbol)) {
                    rule!(ctx, "C01", "fill-not-after-submission", sig, q.date > c, "order id {id} submitted at clock {c} filled with date {}", q.date);
                }
            }
            if self.recs[i].waited_gap_ticks > 0 {
                ctx.bump("probe_fill_after_gap");
            }
            self.recs[i].status = St::Filled;
        }

        // ---- admission: C03 (exactly once, unique ids), C17 (sells first, ids follow order) -------
        {
            let mut a: Vec<OrderKey> = admitted.iter().map(order_key).collect();
            let mut b: Vec<OrderKey> = self.buffered.iter().map(|i| order_key(&self.recs[*i].spec.to_sut())).collect();
            a.sort();
            b.sort();
            let ok = if self.json { a.len() == b.len() } else { a == b };
            rule!(ctx, "C03", "admitted-set", "tick", ok, "the tick reported {} admitted orders, {} were submitted since the last tick (or they differ): admitted [{}]", a.len(), b.len(), admitted.iter().map(fmt_order).collect::<Vec<_>>().join(", "));
            rule!(ctx, "C17", "admitted-set", "tick", ok, "the tick reported {} admitted orders, {} were submitted since the last tick (or they differ)", a.len(), b.len());
        }
        let n_sell = admitted.iter().filter(|o| !Typ::from_sut(o.order_type).is_buy()).count();
        if n_sell > 0 && n_sell < admitted.len() {
            ctx.bump("probe_mixed_batch");
            if admitted.len() > 20 {
                ctx.bump("probe_mixed_batch_gt20");
            }
            ctx.nontrivial |= ctx.focus == "C17";
        }
        let mut seen_buy = false;
        let mut prev_id: Option<u64> = None;
        let buffered: Vec<usize> = std::mem::take(&mut self.buffered);
        let mut by_key: HashMap<OrderKey, Vec<usize>> = HashMap::new();
        for i in buffered.iter().rev() {
            by_key.entry(order_key(&self.recs[*i].spec.to_sut())).or_default().push(*i);
        }
        let mut matched: HashSet<usize> = HashSet::new();
        for o in admitted {
            let is_buy = Typ::from_sut(o.order_type).is_buy();
            if is_buy {
                seen_buy = true;
            } else if seen_buy {
                ctx.fail(
                    "C17", "sells-first", Typ::from_sut(o.order_type).name(),
                    format!("batch of {} admitted with a sell after a buy: [{}]", admitted.len(), admitted.iter().map(|o| if Typ::from_sut(o.order_type).is_buy() { 'B' } else { 'S' }).collect::<String>()),
                );
            }
            match o.order_id {
                None => ctx.fail("C03", "admitted-without-id", "tick", format!("admitted order {} has no id", fmt_order(o))),
                Some(id) => {
                    if self.by_id.contains_key(&id) {
                        ctx.fail("C03", "id-reuse", "tick", format!("id {id} given to {} was already given to another order of this exchange", fmt_order(o)));
                    }
                    if let Some(p) = prev_id {
                        rule!(ctx, "C17", "id-order", "tick", id > p, "ids do not grow along the admitted list: {p} then {id}");
                    } else if let Some(m) = self.max_id {
                        rule!(ctx, "C17", "id-order", "tick", id > m, "admitted id {id} does not exceed earlier id {m}");
                    }
                    prev_id = Some(id);
                    // match with one submitted order of this batch, field by field
                    let mut hit: Option<usize> = None;
                    if let Some(v) = by_key.get_mut(&order_key(o)) {
                        while let Some(i) = v.pop() {
                            if !matched.contains(&i) {
                                hit = Some(i);
                                break;
                            }
                        }
                    }
                    if hit.is_none() && self.json {
                        // floats crossed JSON text (not bit-exact): fall back to a tolerant scan, one to one
                        hit = buffered.iter().copied().find(|i| !matched.contains(i) && self.spec_matches(&self.recs[*i].spec, o));
                    }
                    if let Some(i) = hit {
                        matched.insert(i);
                        self.recs[i].status = St::Resting;
                        self.recs[i].id = Some(id);
                        self.by_id.entry(id).or_insert(i);
                    } else {
                        ctx.fail("C03", "admitted-altered", Typ::from_sut(o.order_type).name(), format!("admitted {} equals no order submitted since the last tick", fmt_order(o)));
                    }
                    self.max_id = Some(self.max_id.map_or(id, |m| m.max(id)));
                }
            }
        }
        for i in buffered {
            if !matched.contains(&i) {
                // never reported admitted: lost (already flagged by admitted-set)
                self.recs[i].status = St::Cancelled;
            }
        }

        rule!(
            ctx, "C17", "book-in-admission-order", "tick", post.book.windows(2).all(|w| w[0].order_id < w[1].order_id),
            "book after tick is not in admission (id) order: {:?}", post.book.iter().map(|o| o.order_id).collect::<Vec<_>>()
        );
        rule!(ctx, "C03", "buffer-cleared", "tick", post.buffer.is_empty(), "pending buffer not empty after tick: {} orders", post.buffer.len());
        {
            let ok = post.trade_log.len() == pre.trade_log.len() + trades.len()
                && post.trade_log[pre.trade_log.len().min(post.trade_log.len())..]
                    .iter()
                    .zip(trades.iter())
                    .all(|(a, b)| a.symbol == b.symbol && a.date == b.date && self.feq(a.value, b.value) && self.feq(a.quantity, b.quantity));
            rule!(ctx, "C03", "trade-log", "tick", ok, "trade log grew from {} to {} but the tick reported {} fills", pre.trade_log.len(), post.trade_log.len(), trades.len());
        }
        // admitted = filled + cancelled + resting, as sets of ids
        if ctx.wants("C03") {
            let mut model: Vec<u64> = self.recs.iter().filter(|r| r.status == St::Resting).filter_map(|r| r.id).collect();
            let mut sut: Vec<u64> = post.book.iter().filter_map(|o| o.order_id).collect();
            model.sort_unstable();
            sut.sort_unstable();
            rule!(ctx, "C03", "admitted-equals-filled-cancelled-resting", "tick", model == sut, "resting ids by history {:?} but book holds {:?}", model, sut);
        }
    }

    pub fn resting(&self) -> impl Iterator<Item = &Rec> {
        self.recs.iter().filter(|r| r.status == St::Resting)
    }
}
