//! Seeded market model. Stands in for `Penelope::random` (thread_rng) and `from_binance` (network):
//! datasets are generated from the run's PRNG and loaded through the real `Penelope::add_quote`.
//! The clock of a simulation is the dataset date; nothing here reads a wall clock.

use crate::common::X;
use crate::rng::Rng;
use rotala::input::penelope::{Penelope, PenelopeQuote, PenelopeQuoteByDate};
use serde::{Deserialize, Serialize};
use std::collections::HashMap;

#[derive(Clone, Debug, Serialize, Deserialize)]
pub struct DatasetSpec {
    pub name: String,
    pub symbols: Vec<String>,
    pub dates: Vec<i64>,
    /// rows[d][s] = Some((bid, ask)) when symbol s is quoted on date d.
    pub rows: Vec<Vec<Option<(X, X)>>>,
    /// Load the quotes symbol by symbol (all dates of one symbol, then the next) instead of date by
    /// date. Only used when some symbol is quoted on every date; that symbol goes first, so dates are
    /// still first seen in increasing order.
    #[serde(default)]
    pub by_symbol: bool,
    /// Hand the server a dataset that went through Serialize / Deserialize (via serde_json::Value, which
    /// keeps every f64 bit for bit), as a dataset loaded from a stored file would.
    #[serde(default)]
    pub via_serde: bool,
}

impl DatasetSpec {
    pub fn n(&self) -> usize {
        self.dates.len()
    }

    pub fn build(&self) -> Penelope {
        let p = self.build_direct();
        if self.via_serde {
            let v = serde_json::to_value(&p).expect("harness: Penelope must serialise");
            return serde_json::from_value(v).expect("harness: Penelope must deserialise from its own serialisation");
        }
        p
    }

    fn build_direct(&self) -> Penelope {
        let mut p = Penelope::new();
        if self.by_symbol {
            if let Some(full) = (0..self.symbols.len()).find(|s| self.rows.iter().all(|r| r[*s].is_some())) {
                let mut order: Vec<usize> = vec![full];
                order.extend((0..self.symbols.len()).filter(|s| *s != full));
                for s in order {
                    for (d, date) in self.dates.iter().enumerate() {
                        if let Some((bid, ask)) = self.rows[d][s] {
                            p.add_quote(bid.0, ask.0, *date, self.symbols[s].clone());
                        }
                    }
                }
                return p;
            }
        }
        for (d, date) in self.dates.iter().enumerate() {
            for (s, sym) in self.symbols.iter().enumerate() {
                if let Some((bid, ask)) = self.rows[d][s] {
                    p.add_quote(bid.0, ask.0, *date, sym.clone());
                }
            }
        }
        p
    }

    pub fn sym_index(&self, sym: &str) -> Option<usize> {
        self.symbols.iter().position(|s| s == sym)
    }

    /// (bid, ask) of `sym` on date index `d`.
    pub fn quote(&self, d: usize, sym: &str) -> Option<(f64, f64)> {
        let s = self.sym_index(sym)?;
        self.rows.get(d)?[s].map(|(b, a)| (b.0, a.0))
    }

    /// The quote map of date index d, built by hand (for the bare-exchange layer).
    pub fn row_map(&self, d: usize) -> PenelopeQuoteByDate {
        let mut m = HashMap::new();
        for (s, sym) in self.symbols.iter().enumerate() {
            if let Some((bid, ask)) = self.rows[d][s] {
                m.insert(
                    sym.clone(),
                    PenelopeQuote {
                        bid: bid.0,
                        ask: ask.0,
                        symbol: sym.clone(),
                        date: self.dates[d],
                    },
                );
            }
        }
        m
    }

    pub fn span(&self) -> i64 {
        match (self.dates.first(), self.dates.last()) {
            (Some(a), Some(b)) => b.saturating_sub(*a),
            _ => 0,
        }
    }

    /// Drop trailing dates beyond `keep` (used by the shrinker).
    pub fn truncated(&self, keep: usize) -> DatasetSpec {
        let keep = keep.max(1).min(self.n());
        DatasetSpec {
            name: self.name.clone(),
            symbols: self.symbols.clone(),
            dates: self.dates[..keep].to_vec(),
            rows: self.rows[..keep].to_vec(),
            by_symbol: self.by_symbol,
            via_serde: self.via_serde,
        }
    }
}

#[derive(Clone, Debug)]
pub struct WorldCfg {
    pub n_min: usize,
    pub n_max: usize,
    pub sym_min: usize,
    pub sym_max: usize,
    /// Symbols are decimal asset ids (Jura).
    pub jura: bool,
    /// Constant price and zero spread (the C16 "trading creates no value" family).
    pub flat: bool,
    /// Allow bid > ask rows (exchange-level engines only).
    pub allow_crossed: bool,
    /// Gaps allowed at all.
    pub allow_gaps: bool,
    /// Minimum price (broker engines keep prices away from zero).
    pub min_price_steps: i64,
}

impl WorldCfg {
    pub fn exchange(jura: bool) -> Self {
        WorldCfg {
            n_min: 1,
            n_max: 12,
            sym_min: 1,
            sym_max: 4,
            jura,
            flat: false,
            allow_crossed: true,
            allow_gaps: true,
            min_price_steps: 1,
        }
    }
}

const UIST_SYMS: &[&str] = &["ABC", "BCD", "XYZ", "Q", "ÜNI✓", "a b", "LONGSYMBOL_0123456789"];
const JURA_SYMS: &[&str] = &["0", "1", "2", "7", "42", "1000000", "01", "007"];

#[derive(Clone, Debug, Default)]
pub struct WorldStats {
    pub gaps: u64,
    pub jumps: u64,
    pub irregular_dates: u64,
    pub crossed: u64,
    pub late_start: u64,
    pub early_end: u64,
    pub by_symbol: u64,
    pub via_serde: u64,
}

pub fn gen_dataset(rng: &mut Rng, name: &str, cfg: &WorldCfg, st: &mut WorldStats) -> DatasetSpec {
    let n = rng.range(cfg.n_min as i64, cfg.n_max as i64) as usize;
    let nsym = rng.range(cfg.sym_min as i64, cfg.sym_max as i64) as usize;
    let pool = if cfg.jura { JURA_SYMS } else { UIST_SYMS };
    let mut idx: Vec<usize> = (0..pool.len()).collect();
    rng.shuffle(&mut idx);
    // plain ASCII symbols most of the time
    let exotic = rng.one_in(6);
    let mut symbols: Vec<String> = Vec::new();
    for i in idx {
        if symbols.len() >= nsym {
            break;
        }
        if !cfg.jura && !exotic && i >= 4 {
            continue;
        }
        symbols.push(pool[i].to_string());
    }
    while symbols.len() < nsym {
        symbols.push(format!("S{}", symbols.len()));
    }

    // dates
    let base = *rng.pick(&[100i64, 100, 100, 0, -50, 1_600_000_000, 4_000_000_000_000]);
    let irregular = rng.one_in(3);
    let mut dates = Vec::with_capacity(n);
    let mut d = base;
    for i in 0..n {
        if i > 0 {
            let step = if irregular {
                *rng.pick(&[1i64, 1, 1, 7, 86_400, 1_000_000_000])
            } else {
                1
            };
            if step != 1 {
                st.irregular_dates += 1;
            }
            d += step;
        }
        dates.push(d);
    }

    // prices
    let arbitrary = !cfg.flat && rng.one_in(5);
    let step = *rng.pick(&[0.25f64, 0.5, 1.0]);
    let gap_p = if cfg.allow_gaps && !cfg.flat {
        *rng.pick(&[0.0f64, 0.0, 0.1, 0.3, 0.6])
    } else {
        0.0
    };
    let jump_p = if cfg.flat { 0.0 } else { *rng.pick(&[0.0f64, 0.05, 0.05, 0.2]) };
    let crossed_p = if cfg.allow_crossed && rng.one_in(20) { 0.1 } else { 0.0 };

    let mut rows: Vec<Vec<Option<(X, X)>>> = vec![vec![None; nsym]; n];
    for s in 0..nsym {
        // one symbol in eight is a cheap share (a few steps): doubles are densest there
        let mut p = if rng.one_in(8) { step * rng.range(cfg.min_price_steps.max(1), 15) as f64 } else { step * rng.range(cfg.min_price_steps.max(4), 800) as f64 };
        let spread_steps = if cfg.flat { 0 } else { rng.range(0, 3) };
        // late start / early end
        let mut first = 0usize;
        let mut last = n;
        if cfg.allow_gaps && !cfg.flat && n > 2 {
            if rng.one_in(8) {
                first = rng.range(1, (n as i64 - 1).min(3)) as usize;
                st.late_start += 1;
            }
            if rng.one_in(8) {
                last = n - rng.range(1, (n as i64 - 1).min(3)) as usize;
                st.early_end += 1;
            }
        }
        for (d, row) in rows.iter_mut().enumerate() {
            if d > 0 && !cfg.flat {
                if rng.chance(jump_p) {
                    let f = *rng.pick(&[2.0f64, 0.5, 10.0, 0.1, 3.0]);
                    p *= f;
                    st.jumps += 1;
                } else if arbitrary {
                    p *= 0.9 + 0.2 * rng.f64();
                } else {
                    p += step * rng.range(-3, 3) as f64;
                }
                if !arbitrary {
                    p = (p / step).round() * step;
                }
                let floor = step * cfg.min_price_steps as f64;
                if p < floor {
                    p = floor;
                }
                if p > 1.0e7 {
                    p = 1.0e7;
                }
            }
            let present = d >= first && d < last && !rng.chance(gap_p);
            if !present {
                st.gaps += 1;
                continue;
            }
            let (mut bid, mut ask) = if arbitrary {
                (p, p * (1.0 + 0.01 * rng.f64()))
            } else {
                (p, p + step * spread_steps as f64)
            };
            if rng.chance(crossed_p) {
                std::mem::swap(&mut bid, &mut ask);
                if bid != ask {
                    st.crossed += 1;
                }
            }
            row[s] = Some((X(bid), X(ask)));
        }
    }
    // Penelope only knows dates that carry at least one quote: make every date carry one.
    for row in rows.iter_mut() {
        if row.iter().all(|q| q.is_none()) {
            let s = rng.usize(nsym);
            let p = step * rng.range(cfg.min_price_steps.max(4), 800) as f64;
            row[s] = Some((X(p), X(p)));
            st.gaps = st.gaps.saturating_sub(1);
        }
    }
    let by_symbol = nsym > 1 && rng.one_in(3);
    if by_symbol {
        st.by_symbol += 1;
    }
    // drawn from a fork so that the main stream (and with it every existing run) stays as it was
    let via_serde = rng.fork("via-serde").one_in(4);
    if via_serde {
        st.via_serde += 1;
    }
    DatasetSpec {
        name: name.to_string(),
        symbols,
        dates,
        rows,
        by_symbol,
        via_serde,
    }
}
