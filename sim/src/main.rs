//! `sim` — deterministic simulation with fault injection for calumrussell/alator.
//!
//!   sim check <PROP> [--tier quick|thorough] [--seed N] [--runs-scale F] [--jobs N]
//!   sim replay <file> [--verbose]
//!   sim determinism [--seeds N] [--out file]     (prints per-seed event-log hashes)
//!
//! Exit codes: 0 held / 1 violation (line `VIOLATION property=<id> replay=<path>`) / 2 harness error.

#![allow(dead_code)]
mod clock;
mod common;
mod e1j;
mod e1j_model;
mod e1u;
mod e1u_model;
mod e2;
mod e3;
mod e4;
#[cfg(shadow_http)]
mod e5;
mod engine;
mod exec;
mod rng;
mod runner;
mod server;
mod simclient;
mod simhttp;
mod threads;
mod world;

use common::Tier;
use engine::Engine;
use runner::{EngineReport, Params, ReplayFile};
use serde_json::{json, Value};
use std::time::Instant;

#[derive(Clone, Copy, Debug, PartialEq)]
pub enum Eng {
    E1U,
    E1J,
    E3,
    E4,
    E2U,
    E2J,
    E5,
    E5J,
}

impl Eng {
    fn from_name(s: &str) -> Option<Eng> {
        match s {
            "e1-uist" => Some(Eng::E1U),
            "e1-jura" => Some(Eng::E1J),
            "e3-broker" => Some(Eng::E3),
            "e4-strategy" => Some(Eng::E4),
            "e2-uist-twin" => Some(Eng::E2U),
            "e2-jura-twin" => Some(Eng::E2J),
            "e5-uist-threads" => Some(Eng::E5),
            "e5-jura-threads" => Some(Eng::E5J),
            _ => None,
        }
    }
}

macro_rules! with_engine {
    ($eng:expr, $e:ident => $body:expr) => {
        match $eng {
            Eng::E1U => {
                let $e = &e1u::E1U;
                $body
            }
            Eng::E1J => {
                let $e = &e1j::E1J;
                $body
            }
            Eng::E3 => {
                let $e = &e3::E3;
                $body
            }
            Eng::E4 => {
                let $e = &e4::E4;
                $body
            }
            Eng::E2U => {
                let $e = &e2::E2U;
                $body
            }
            Eng::E2J => {
                let $e = &e2::E2J;
                $body
            }
            #[cfg(shadow_http)]
            Eng::E5 => {
                let $e = &e5::E5U;
                $body
            }
            #[cfg(shadow_http)]
            Eng::E5J => {
                let $e = &e5::E5J;
                $body
            }
            #[cfg(not(shadow_http))]
            Eng::E5 | Eng::E5J => {
                out!("HARNESS-ERROR the shadow copy of rotala::http could not be produced (build.rs): the thread-level engine is unavailable");
                std::process::exit(2);
            }
        }
    };
}

/// (engine, runs in the quick tier, runs in the thorough tier)
fn plan(prop: &str) -> Vec<(Eng, u64, u64)> {
    // Thorough runs are a different animal from quick ones: one in ten is a long run (hundreds of dates and
    // operations), bursts reach 5 000 orders, a server may hold 1 100 backtests - a run costs 10 to 1 000 times
    // a quick one (measured on this machine under load: e1-uist 20-200 runs/s, e1-jura 2-40 runs/s, e3 500/s,
    // e2 250-700/s, e4 1 400/s, e5 1 200-2 000/s). Budgets are sized for 5-15 minutes per check; the wall
    // clock cap (40 min per check) is only a safety net.
    match prop {
        "C02" => vec![(Eng::E1U, 200_000, 150_000)],
        "C18" => vec![(Eng::E1J, 200_000, 25_000)],
        "C01" | "C03" => vec![(Eng::E1U, 90_000, 60_000), (Eng::E1J, 80_000, 12_000)],
        "C07" => vec![(Eng::E1U, 90_000, 60_000), (Eng::E1J, 80_000, 12_000), (Eng::E5, 6_000, 150_000), (Eng::E5J, 4_000, 80_000)],
        "C17" => vec![(Eng::E1U, 35_000, 8_000), (Eng::E1J, 25_000, 1_200)], // thorough: fewer but far larger runs (batches up to 5000)
        "C04" | "C05" | "C06" | "C09" | "C10" | "C11" | "C12" => vec![(Eng::E3, 150_000, 350_000)],
        "C20" => vec![(Eng::E2U, 70_000, 350_000), (Eng::E2J, 60_000, 120_000)],
        "C16" => vec![(Eng::E4, 60_000, 600_000)],
        "C08" => vec![(Eng::E1U, 30_000, 2_000), (Eng::E1J, 20_000, 600), (Eng::E2U, 15_000, 150_000), (Eng::E5, 12_000, 250_000), (Eng::E5J, 8_000, 150_000)], // thorough e1 runs under C08 hold up to 1 100 backtests and re-run each solo: 3-10 runs/s
        _ => vec![],
    }
}

/// Root of the verification tree (evidence, replays, known findings). Overridable for scratch
/// campaigns (mutant sweeps against a copy of the repository) so that they never touch /verif.
pub fn verif_dir() -> String {
    std::env::var("VERIF_DIR").unwrap_or_else(|_| "/verif".to_string())
}

#[derive(serde::Deserialize, Debug, Clone)]
struct KnownEntry {
    property: String,
    status: String,
    #[serde(default)]
    rule: String,
    #[serde(default)]
    signature: String,
    #[serde(default)]
    text: String,
    #[serde(default)]
    replay: Option<String>,
}

fn load_known() -> Vec<KnownEntry> {
    let path = format!("{}/known_findings.json", verif_dir());
    match std::fs::read_to_string(&path) {
        Ok(s) => match serde_json::from_str::<Value>(&s) {
            Ok(v) => {
                let arr = v.get("findings").cloned().unwrap_or(Value::Array(vec![]));
                serde_json::from_value(arr).unwrap_or_else(|e| {
                    out!("HARNESS-ERROR cannot parse {path}: {e}");
                    std::process::exit(2);
                })
            }
            Err(e) => {
                out!("HARNESS-ERROR cannot parse {path}: {e}");
                std::process::exit(2);
            }
        },
        Err(_) => vec![],
    }
}

fn arg_val(args: &[String], name: &str) -> Option<String> {
    args.iter().position(|a| a == name).and_then(|i| args.get(i + 1)).cloned()
}

fn main() {
    common::silence_sut_stdout();
    common::install_panic_capture();
    let args: Vec<String> = std::env::args().collect();
    if args.len() < 2 {
        out!("usage: sim check <PROP> [--tier quick|thorough] [--seed N] | sim replay <file> | sim determinism");
        std::process::exit(2);
    }
    match args[1].as_str() {
        "check" => cmd_check(&args),
        "replay" => cmd_replay(&args),
        "determinism" => cmd_determinism(&args),
        "worker" => cmd_worker(&args),
        "trace" => cmd_trace(&args),
        other => {
            out!("unknown command {other}");
            std::process::exit(2);
        }
    }
}

/// sim worker <engine> <focus> <tier> <seed> <runs> <idx> <n> <wall_cap> <dir> <known-json>
fn cmd_worker(args: &[String]) {
    if args.len() < 12 {
        out!("HARNESS-ERROR bad worker arguments");
        std::process::exit(2);
    }
    let Some(eng) = Eng::from_name(&args[2]) else {
        out!("HARNESS-ERROR unknown engine {}", args[2]);
        std::process::exit(2);
    };
    let tier = if args[4] == "thorough" { Tier::Thorough } else { Tier::Quick };
    let known: Vec<(String, String, String)> = serde_json::from_str(&args[11]).unwrap_or_default();
    let params = Params {
        focus: &args[3],
        tier,
        seed: args[5].parse().unwrap_or(1),
        runs: args[6].parse().unwrap_or(0),
        jobs: 1,
        wall_cap_s: args[9].parse().unwrap_or(120.0),
        known: &known,
    };
    let idx: usize = args[7].parse().unwrap_or(0);
    let n: usize = args[8].parse().unwrap_or(1);
    with_engine!(eng, e => runner::worker_main(e, &params, idx, n, &args[10]));
}

/// sim trace <engine> <run index> [--seed N] [--focus P]: print the event log of one generated run
fn cmd_trace(args: &[String]) {
    let Some(eng) = args.get(2).and_then(|s| Eng::from_name(s)) else {
        out!("usage: sim trace <engine> <index>");
        std::process::exit(2);
    };
    let idx: u64 = args.get(3).and_then(|s| s.parse().ok()).unwrap_or(0);
    let base: u64 = arg_val(args, "--seed").and_then(|s| s.parse().ok()).unwrap_or(1);
    let focus = arg_val(args, "--focus").unwrap_or_else(|| "ALL".to_string());
    with_engine!(eng, e => {
        let s = rng::mix(base, e.name(), idx);
        let (_case, ctx) = e.generate(s, &focus, Tier::Quick, true);
        if let Some(t) = &ctx.log.text {
            for l in t.lines() {
                out!("{l}");
            }
        }
        out!("hash {:016x} violation {:?}", ctx.log.hash(), ctx.violation);
    });
}

fn cmd_replay(args: &[String]) {
    let Some(path) = args.get(2) else {
        out!("usage: sim replay <file> [--verbose]");
        std::process::exit(2);
    };
    let verbose = args.iter().any(|a| a == "--verbose");
    let code = replay_path(path, verbose, true);
    std::process::exit(code);
}

/// Returns 1 if the file's property is violated again, 0 if not, 2 on harness error.
fn replay_path(path: &str, verbose: bool, print: bool) -> i32 {
    let s = match std::fs::read_to_string(path) {
        Ok(s) => s,
        Err(e) => {
            out!("HARNESS-ERROR cannot read {path}: {e}");
            return 2;
        }
    };
    let rf: ReplayFile = match serde_json::from_str(&s) {
        Ok(x) => x,
        Err(e) => {
            out!("HARNESS-ERROR cannot parse {path}: {e}");
            return 2;
        }
    };
    let Some(eng) = Eng::from_name(&rf.engine) else {
        out!("HARNESS-ERROR unknown engine {} in {path}", rf.engine);
        return 2;
    };
    let res = common::catch(|| with_engine!(eng, e => runner::replay_file(e, &rf, verbose)));
    let (viol, hash, text) = match res {
        Ok(x) => x,
        Err(p) => {
            out!("HARNESS-ERROR replay of {path} panicked in the harness: {p}");
            return 2;
        }
    };
    if verbose {
        if let Some(t) = text {
            for l in t.lines() {
                out!("  | {l}");
            }
        }
    }
    match viol {
        Some(v) => {
            if print {
                out!("replay: property={} rule={} hash={:016x} recorded-hash={} {}", v.prop, v.rule, hash, rf.hash, if format!("{:016x}", hash) == rf.hash { "(identical execution)" } else { "(execution differs from the recorded one)" });
                out!("replay: [{}] {}", v.sig, v.msg);
                out!("VIOLATION property={} replay={}", v.prop, path);
            }
            1
        }
        None => {
            if print {
                out!("replay: no violation of {} (hash={:016x} recorded-hash={})", rf.property, hash, rf.hash);
            }
            0
        }
    }
}

fn cmd_check(args: &[String]) {
    let Some(prop) = args.get(2).cloned() else {
        out!("usage: sim check <PROP>");
        std::process::exit(2);
    };
    let tier = match arg_val(args, "--tier").or_else(|| std::env::var("VERIF_TIER").ok()).as_deref() {
        Some("thorough") => Tier::Thorough,
        _ => Tier::Quick,
    };
    let seed: u64 = arg_val(args, "--seed")
        .or_else(|| std::env::var("VERIF_SEED").ok())
        .and_then(|s| s.trim().parse::<i64>().ok())
        .map(|x| x as u64)
        .unwrap_or(1);
    let jobs: usize = arg_val(args, "--jobs").and_then(|s| s.parse().ok()).unwrap_or_else(|| std::thread::available_parallelism().map(|n| n.get()).unwrap_or(8));
    let scale: f64 = arg_val(args, "--runs-scale").and_then(|s| s.parse().ok()).unwrap_or(1.0);
    let mut plan = plan(&prop);
    if !cfg!(shadow_http) && plan.iter().any(|(e, _, _)| matches!(e, Eng::E5 | Eng::E5J)) {
        out!("NOTE thread-level engines (e5) unavailable: the shadow copy of rotala::http could not be produced or does not compile; this check runs without them");
        plan.retain(|(e, _, _)| !matches!(e, Eng::E5 | Eng::E5J));
    }
    if plan.is_empty() {
        out!("HARNESS-ERROR property {prop} has no check (not claimed)");
        std::process::exit(2);
    }
    let t0 = Instant::now();
    out!("sim check property={prop} tier={} seed={seed} jobs={jobs}", tier.name());

    let known_all = load_known();
    let known: Vec<(String, String, String)> = known_all
        .iter()
        .filter(|k| k.property == prop && k.status == "known")
        .map(|k| (k.rule.clone(), k.signature.clone(), k.text.clone()))
        .collect();

    // 1. regression replays of fixed findings: a fixed entry suppresses nothing
    let mut regression_replays = 0u64;
    for k in known_all.iter().filter(|k| k.property == prop && k.status == "fixed") {
        if let Some(rp) = &k.replay {
            let path = if rp.starts_with('/') { rp.clone() } else { format!("{}/{rp}", verif_dir()) };
            regression_replays += 1;
            match replay_path(&path, false, false) {
                0 => {}
                1 => {
                    out!("regression: fixed finding has returned: {}", k.text);
                    replay_path(&path, false, true);
                    write_evidence(&prop, tier, seed, &[], t0.elapsed().as_secs_f64(), 1, regression_replays);
                    std::process::exit(1);
                }
                _ => std::process::exit(2),
            }
        }
    }

    // 2. seeded search
    let mut reports: Vec<EngineReport> = Vec::new();
    let mut violated = false;
    let n_engines = plan.len().max(1) as f64;
    for (eng, q, t) in plan {
        let runs = ((if tier == Tier::Quick { q } else { t }) as f64 * scale) as u64;
        // safety nets only: budgets are run counts, sized so that the caps are not reached on an idle machine.
        // A check as a whole stays below 15 min (quick) / 40 min (thorough) however loaded the machine is; an
        // engine that reaches its share stops taking new runs and says so (`capped_by_wall_clock`).
        let wall_cap_s = (if tier == Tier::Quick { 900.0 } else { 2400.0 }) / n_engines;
        let params = Params { focus: &prop, tier, seed, runs: runs.max(1), jobs, wall_cap_s, known: &known };
        let rep = with_engine!(eng, e => runner::run_engine(e, &params));
        out!(
            "  engine={} runs={} nontrivial={} interleavings={} states={} ticks={} wall={:.1}s",
            rep.engine, rep.runs, rep.nontrivial_distinct, rep.interleavings, rep.states, rep.sim_ticks, rep.wall_s
        );
        if let Some(f) = &rep.failure {
            let path = runner::write_replay(&format!("{}/replays", verif_dir()), &prop, &rep.engine, seed, tier, f);
            out!(
                "  violation in run {} (run seed {}): {}/{} [{}] {}",
                f.run_index, f.run_seed, f.violation.prop, f.violation.rule, f.violation.sig, f.violation.msg
            );
            out!("  minimised from {} to {} ops in {} replays", f.ops_before_shrink, f.ops, f.shrink_replays);
            if !f.reproducible {
                out!("  NOTE: the violation was observed in the generating run, but replaying the recorded case does not show it again: the system under test behaves nondeterministically here (a source the simulator has no seam for, e.g. iteration over a std HashMap); the replay file holds the full, unminimised case");
            } else if let Err(e) = runner::verify_replay_fresh_process(&path, f) {
                // The harness is deterministic on the unchanged tree (tools/determinism.sh: every engine, thousands
                // of seeds, three processes). If a recorded case replays differently in a fresh process, the tree
                // under test carries state across runs or processes (a process-wide static, say): the violation
                // stands as observed in this process, and the reader is told that the replay file may not show it.
                out!("  NOTE: the recorded case replays differently in a fresh process ({}): the system under test keeps state across runs or processes; the violation stands as observed here", e.lines().next().unwrap_or(""));
            }
            out!("VIOLATION property={prop} replay={path}");
            violated = true;
        }
        let stop = rep.failure.is_some();
        reports.push(rep);
        if stop {
            break;
        }
    }
    for r in &reports {
        for (text, n) in &r.known_hits {
            out!("KNOWN-FINDING: property={prop} {text} (seen {n} times)");
        }
    }
    write_evidence(&prop, tier, seed, &reports, t0.elapsed().as_secs_f64(), violated as i64, regression_replays);
    if violated {
        std::process::exit(1);
    }
    out!("OK property={prop} held on everything explored ({:.1}s)", t0.elapsed().as_secs_f64());
}

fn nontrivial_rule(prop: &str) -> &'static str {
    match prop {
        "C01" => "a run is non-trivial when at least one order was filled (so the no-look-ahead rules were exercised on a real fill)",
        "C02" => "a run is non-trivial when some limit or stop order saw its condition both false and true on quoted ticks",
        "C03" => "a run is non-trivial when at least one order was filled (conservation exercised across admission and fill)",
        "C07" => "a run is non-trivial when a backtest was ticked to exactly its last date and has_next turned false",
        "C08" => "a run is non-trivial when at least two backtests existed and a solo re-run of one was compared",
        "C17" => "a run is non-trivial when a batch containing both buy-side and sell-side orders was admitted",
        "C04" | "C05" => "a run is non-trivial when at least one check() reconciled fills returned by the exchange (the ledger was exercised on real executions)",
        "C06" => "a run is non-trivial when at least one order was forwarded in a run that used a non-eager delivery mode (lazy or Pending-delayed client future)",
        "C09" => "a run is non-trivial when a check() ended with negative cash (the Failed-entry condition was evaluated on a real shortfall) or an operation was attempted in Failed state",
        "C10" => "a run is non-trivial when a liquidation (explicit or automatic) inside the property's domain reported success and its queued sells were valued",
        "C11" => "a run is non-trivial when the identities were evaluated on a portfolio holding at least one quoted position",
        "C12" => "a run is non-trivial when a diff call had at least one order prescribed by the property to compare with",
        "C16" => "a run is non-trivial when the strategy performed all N updates of its dataset",
        "C18" => "a run is non-trivial when a trigger fired or an IOC order was rejected by the slippage bound",
        "C20" => "a run is non-trivial when at least one tick with fills was compared between the in-process twin and the JSON service",
        _ => "a run is non-trivial when the property's own probe fired",
    }
}

fn write_evidence(prop: &str, tier: Tier, seed: u64, reports: &[EngineReport], wall: f64, violations: i64, regression_replays: u64) {
    let evaluations: u64 = reports.iter().map(|r| r.runs).sum::<u64>() + regression_replays;
    let nontrivial: u64 = reports.iter().map(|r| r.nontrivial_distinct).sum();
    let mut samples: Vec<Value> = Vec::new();
    for r in reports {
        for s in r.samples.iter().take(2) {
            samples.push(json!({"engine": r.engine, "case": s}));
        }
    }
    if samples.is_empty() {
        samples.push(json!({"note": "no run completed"}));
    }
    let mut faults = serde_json::Map::new();
    let mut probes = serde_json::Map::new();
    for r in reports {
        for (k, v) in &r.counters {
            let m = if k.starts_with('f') && k.chars().nth(1).map_or(false, |c| c.is_ascii_digit()) { &mut faults } else { &mut probes };
            let cur = m.get(k).and_then(|x| x.as_u64()).unwrap_or(0);
            m.insert(k.clone(), json!(cur + v));
        }
    }
    let total_runs: u64 = reports.iter().map(|r| r.runs).sum();
    let ev = json!({
        "property_id": prop,
        "tier": tier.name(),
        "seed": seed as i64,
        "level": "exploration",
        "coverage": {
            "evaluations": evaluations,
            "distinct_nontrivial": nontrivial,
            "rule": format!("each evaluation is one simulated run derived from (VERIF_SEED, engine, run index); runs are distinct by event-log hash; {}", nontrivial_rule(prop)),
            "samples": samples,
            "engines": reports.iter().map(runner::report_json).collect::<Vec<_>>(),
            "runs_per_hour": if wall > 0.0 { (total_runs as f64 / wall * 3600.0) as u64 } else { 0 },
            "seeds": format!("batch seed {seed}; run i of engine e uses mix(seed, e, i), i in 0..runs"),
            "sim_ticks": reports.iter().map(|r| r.sim_ticks).sum::<u64>(),
            "simulated_time_covered": format!("{} exchange ticks; sum over runs of (last date reached - first date) = {} date units (dataset dates are abstract integers; most datasets step by 1, some by 7, 86400 or 1e9); {} ms passed on the simulated (paused tokio) clock while slow deliveries were pending", reports.iter().map(|r| r.sim_ticks).sum::<u64>(), reports.iter().map(|r| r.sim_span).sum::<i128>(), reports.iter().map(|r| r.counters.get("f6_simulated_ms_waited_for_slow_deliveries").copied().unwrap_or(0)).sum::<u64>()),
            "faults_fired": faults,
            "probes": probes,
            "distinct_interleavings": reports.iter().map(|r| r.interleavings).sum::<u64>(),
            "distinct_states": reports.iter().map(|r| r.states).sum::<u64>(),
            "regression_replays": regression_replays,
            "components": components(),
            "not_simulated": "crash/restart, disk faults, partitions, clock skew between nodes, allocation failure: the anchored code has no surface for them (DESIGN.md section 1)",
        },
        "assumptions": assumptions(prop),
        "wall_s": wall,
        "violations": violations,
    });
    let dir = format!("{}/evidence", verif_dir());
    let _ = std::fs::create_dir_all(&dir);
    let path = format!("{dir}/{prop}.json");
    if let Err(e) = std::fs::write(&path, serde_json::to_string_pretty(&ev).unwrap()) {
        out!("HARNESS-ERROR cannot write {path}: {e}");
        std::process::exit(2);
    }
}

fn components() -> Value {
    json!({
        "real": [
            "rotala::exchange::uist_v1 (UistV1, OrderBook)", "rotala::exchange::jura_v1 (JuraV1, OrderBook)",
            "rotala::http::{uist,jura}::AppState (clock, id allocation, backtest table)",
            "actix handlers, extractors, serde derives, ResponseError mapping (in-memory actix_web::test service, Json path)",
            "rotala::input::penelope::Penelope (add_quote, get_quotes, get_date, has_next)",
            "alator UistBroker and all default methods of Portfolio / CashOperations / BrokerOperations, UistBrokerLog",
            "alator StaticWeightStrategy, DefaultTradingSchedule",
            "uistv1_client::TestClient (third twin of engine e2: C20, C08)",
            "engine e5 (C08): the handlers and AppState of rotala/src/http/{uist,jura}.rs as a textual shadow copy compiled into the simulator (std::sync::Mutex -> the simulator's scheduler-aware mutex, crate:: -> rotala::); exchange, data feed and serde types are the library's own"
        ],
        "stub": [
            "reqwest, HttpServer, TCP: replaced by SimClient over the same handlers (broker engines) and by sim/src/simhttp.rs under the shipped uistv1_client::Client and jurav1_client::Client (engine e2, one run in three: URL formats, bodies and decoding of the real clients run)",
            "TestClient is not the broker's client in engines e3/e4 (SimClient is: eager/direct mode is behaviourally the same, with the server state visible and the delivery schedulable)",
            "OS thread scheduling and std::sync::Mutex (engine e5): replaced by baton passing under a seeded chooser",
            "time: the tokio clock is paused and advanced only by the simulator (slow deliveries); the code under test has no timers of its own, dataset dates are the only other time there is",
            "Penelope::random (thread_rng), from_binance, source::*: replaced by the seeded market model",
            "`now` on the Direct path (AppState has no such method): harness-side copy of TestClient::now"
        ]
    })
}

fn assumptions(prop: &str) -> Vec<String> {
    let mut v = vec![
        "sampling, not proof: a clean batch is evidence over the explored runs only".to_string(),
        "A1: every actix handler holds the AppState mutex from its first statement to its return with no .await in between, so thread-level interleavings of the real server are exactly the request-level interleavings the simulator schedules. A1 is not taken on trust: the C08 check (engines e5-*-threads) runs the real handlers on simulated threads under a scheduler that decides every lock hand-over and tests the histories for linearizability".to_string(),
        "the hooks behind cargo feature `verif` are read-only (snapshots, accessors) except the positions-order hook, which only imposes a key order the real HashMap could have produced".to_string(),
    ];
    if matches!(prop, "C02" | "C03" | "C17" | "C01") {
        v.push("orders carry finite positive prices and positive quantities (orders are identified by id from the snapshots; equal-looking orders are generated on purpose)".to_string());
    }
    v
}

fn cmd_determinism(args: &[String]) {
    let seeds: u64 = arg_val(args, "--seeds").and_then(|s| s.parse().ok()).unwrap_or(2000);
    let jobs: usize = arg_val(args, "--jobs").and_then(|s| s.parse().ok()).unwrap_or(16);
    let base: u64 = arg_val(args, "--seed").and_then(|s| s.parse().ok()).unwrap_or(1);
    let engines = [Eng::E1U, Eng::E1J, Eng::E3, Eng::E4, Eng::E2U, Eng::E2J, Eng::E5, Eng::E5J];
    for eng in engines {
        let next = std::sync::atomic::AtomicU64::new(0);
        let results = std::sync::Mutex::new(Vec::<(u64, u64, u64)>::new());
        std::thread::scope(|sc| {
            for _ in 0..jobs {
                sc.spawn(|| loop {
                    let i = next.fetch_add(1, std::sync::atomic::Ordering::SeqCst);
                    if i >= seeds {
                        break;
                    }
                    let (h, h2) = with_engine!(eng, e => {
                        let s = rng::mix(base, e.name(), i);
                        let (case, ctx) = e.generate(s, "ALL", Tier::Quick, false);
                        let ctx2 = e.replay(&case, "ALL", false);
                        (ctx.log.hash(), ctx2.log.hash())
                    });
                    results.lock().unwrap().push((i, h, h2));
                });
            }
        });
        let mut r = results.into_inner().unwrap();
        r.sort();
        let name = with_engine!(eng, e => e.name());
        for (i, h, h2) in r {
            out!("{name} {i} {h:016x} {h2:016x}{}", if h != h2 { " GENERATE-REPLAY-MISMATCH" } else { "" });
        }
    }
}
