//! The only source of randomness in the simulator: SplitMix64-seeded xoshiro256**.
//! One integer (VERIF_SEED) decides everything; streams are forked by label so that adding a
//! draw in one place does not shift the others.

#[derive(Clone, Debug)]
pub struct Rng {
    s: [u64; 4],
}

pub fn splitmix(x: &mut u64) -> u64 {
    *x = x.wrapping_add(0x9e37_79b9_7f4a_7c15);
    let mut z = *x;
    z = (z ^ (z >> 30)).wrapping_mul(0xbf58_476d_1ce4_e5b9);
    z = (z ^ (z >> 27)).wrapping_mul(0x94d0_49bb_1331_11eb);
    z ^ (z >> 31)
}

/// Mix a batch seed, an engine/stream label and a run index into a run seed.
pub fn mix(seed: u64, label: &str, idx: u64) -> u64 {
    let mut h = seed ^ 0x6a09_e667_f3bc_c908;
    for b in label.as_bytes() {
        h ^= *b as u64;
        h = h.wrapping_mul(0x0000_0100_0000_01b3);
    }
    let mut x = h ^ idx.wrapping_mul(0xd6e8_feb8_6659_fd93);
    let a = splitmix(&mut x);
    let b = splitmix(&mut x);
    a ^ b.rotate_left(17)
}

impl Rng {
    pub fn new(seed: u64) -> Self {
        let mut x = seed;
        let s = [
            splitmix(&mut x),
            splitmix(&mut x),
            splitmix(&mut x),
            splitmix(&mut x),
        ];
        Rng { s }
    }

    /// An independent stream derived from this generator's seed material and a label. Does not
    /// advance `self`.
    pub fn fork(&self, label: &str) -> Rng {
        Rng::new(mix(self.s[0] ^ self.s[2].rotate_left(13), label, self.s[1]))
    }

    pub fn next_u64(&mut self) -> u64 {
        let result = self.s[1].wrapping_mul(5).rotate_left(7).wrapping_mul(9);
        let t = self.s[1] << 17;
        self.s[2] ^= self.s[0];
        self.s[3] ^= self.s[1];
        self.s[1] ^= self.s[2];
        self.s[0] ^= self.s[3];
        self.s[2] ^= t;
        self.s[3] = self.s[3].rotate_left(45);
        result
    }

    /// Uniform in 0..n (n > 0).
    pub fn below(&mut self, n: u64) -> u64 {
        debug_assert!(n > 0);
        // multiply-shift; bias is irrelevant here
        ((self.next_u64() as u128 * n as u128) >> 64) as u64
    }

    pub fn usize(&mut self, n: usize) -> usize {
        self.below(n as u64) as usize
    }

    /// Uniform in lo..=hi.
    pub fn range(&mut self, lo: i64, hi: i64) -> i64 {
        debug_assert!(hi >= lo);
        lo + self.below((hi - lo + 1) as u64) as i64
    }

    pub fn f64(&mut self) -> f64 {
        (self.next_u64() >> 11) as f64 / (1u64 << 53) as f64
    }

    pub fn chance(&mut self, p: f64) -> bool {
        self.f64() < p
    }

    pub fn one_in(&mut self, n: u64) -> bool {
        self.below(n) == 0
    }

    pub fn pick<'a, T>(&mut self, xs: &'a [T]) -> &'a T {
        &xs[self.usize(xs.len())]
    }

    /// Weighted choice: returns index.
    pub fn weighted(&mut self, w: &[u32]) -> usize {
        let total: u64 = w.iter().map(|x| *x as u64).sum();
        debug_assert!(total > 0);
        let mut r = self.below(total);
        for (i, x) in w.iter().enumerate() {
            if r < *x as u64 {
                return i;
            }
            r -= *x as u64;
        }
        w.len() - 1
    }

    pub fn shuffle<T>(&mut self, xs: &mut [T]) {
        for i in (1..xs.len()).rev() {
            let j = self.usize(i + 1);
            xs.swap(i, j);
        }
    }
}
