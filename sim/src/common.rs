//! Shared plumbing: per-run context (violations, counters, event-log hash), exact float
//! serialisation for replay files, stdout handling and panic capture.

use serde::{Deserialize, Deserializer, Serialize, Serializer};
use std::cell::RefCell;
use std::collections::BTreeMap;
use std::fmt::Write as _;
use std::io::Write as _;

// ------------------------------------------------------------------------------------------------
// exact f64 in replay files
// ------------------------------------------------------------------------------------------------

/// An f64 that is written to JSON as its shortest round-trip decimal *string* and parsed back with
/// `str::parse` (correctly rounded), so replay files reproduce every bit. serde_json's default
/// number parser is not bit-exact and we must not switch on its `float_roundtrip` feature, because
/// cargo feature unification would change the build of the system under test as well.
#[derive(Clone, Copy, Debug, PartialEq, PartialOrd, Default)]
pub struct X(pub f64);

impl Serialize for X {
    fn serialize<S: Serializer>(&self, s: S) -> Result<S::Ok, S::Error> {
        s.serialize_str(&format!("{:?}", self.0))
    }
}

impl<'de> Deserialize<'de> for X {
    fn deserialize<D: Deserializer<'de>>(d: D) -> Result<Self, D::Error> {
        let s = String::deserialize(d)?;
        s.parse::<f64>()
            .map(X)
            .map_err(|e| serde::de::Error::custom(format!("bad float {s:?}: {e}")))
    }
}

// ------------------------------------------------------------------------------------------------
// tiers
// ------------------------------------------------------------------------------------------------

#[derive(Clone, Copy, Debug, PartialEq, Eq)]
pub enum Tier {
    Quick,
    Thorough,
}

impl Tier {
    pub fn name(&self) -> &'static str {
        match self {
            Tier::Quick => "quick",
            Tier::Thorough => "thorough",
        }
    }
}

// ------------------------------------------------------------------------------------------------
// violations
// ------------------------------------------------------------------------------------------------

#[derive(Clone, Debug, Serialize, Deserialize, PartialEq)]
pub struct Violation {
    pub prop: String,
    /// Stable name of the violated rule (the unit the shrinker preserves).
    pub rule: String,
    /// Class of the failing input / call site, used to match known-findings entries.
    pub sig: String,
    pub msg: String,
}

// ------------------------------------------------------------------------------------------------
// event log: canonical text of every op and observation, hashed (FNV-1a 64) as it is written
// ------------------------------------------------------------------------------------------------

pub struct EvLog {
    h: u64,
    pub text: Option<String>,
    pub events: u64,
}

impl EvLog {
    pub fn new(keep_text: bool) -> Self {
        EvLog {
            h: 0xcbf2_9ce4_8422_2325,
            text: if keep_text { Some(String::new()) } else { None },
            events: 0,
        }
    }
    pub fn hash(&self) -> u64 {
        self.h
    }
    pub fn end_event(&mut self) {
        self.events += 1;
        let _ = self.write_str("\n");
    }
}

impl std::fmt::Write for EvLog {
    fn write_str(&mut self, s: &str) -> std::fmt::Result {
        let mut h = self.h;
        for b in s.as_bytes() {
            h ^= *b as u64;
            h = h.wrapping_mul(0x0000_0100_0000_01b3);
        }
        self.h = h;
        if let Some(t) = &mut self.text {
            t.push_str(s);
        }
        Ok(())
    }
}

/// Write one canonical event line into the run's log (never draws from the PRNG).
#[macro_export]
macro_rules! ev {
    ($ctx:expr, $($arg:tt)*) => {{
        use std::fmt::Write as _;
        let _ = write!($ctx.log, $($arg)*);
        $ctx.log.end_event();
    }};
}

pub fn fnv(h: &mut u64, x: u64) {
    let mut v = *h;
    for i in 0..8 {
        v ^= (x >> (i * 8)) & 0xff;
        v = v.wrapping_mul(0x0000_0100_0000_01b3);
    }
    *h = v;
}

pub fn fnv_str(h: &mut u64, s: &str) {
    let mut v = *h;
    for b in s.as_bytes() {
        v ^= *b as u64;
        v = v.wrapping_mul(0x0000_0100_0000_01b3);
    }
    v ^= 0xff;
    v = v.wrapping_mul(0x0000_0100_0000_01b3);
    *h = v;
}

pub const FNV0: u64 = 0xcbf2_9ce4_8422_2325;

// ------------------------------------------------------------------------------------------------
// per-run context
// ------------------------------------------------------------------------------------------------

pub struct Ctx {
    /// Property whose rules decide this run ("ALL": every rule decides; used by the determinism
    /// proof and in development).
    pub focus: String,
    pub log: EvLog,
    pub counters: BTreeMap<&'static str, u64>,
    pub violation: Option<Violation>,
    /// Violations of rules that belong to other properties (ignored for the verdict; counted).
    pub other: BTreeMap<String, u64>,
    /// Abstract states visited (hashes), for the "distinct states" measure.
    pub states: Vec<u64>,
    /// Hash of the sequence of (client, backtest, op kind): the interleaving.
    pub ileave: u64,
    /// The property's own "non-trivial" probe fired in this run.
    pub nontrivial: bool,
    pub sim_ticks: u64,
    pub sim_span: i64,
    pub ops: u64,
}

impl Ctx {
    pub fn new(focus: &str, keep_text: bool) -> Self {
        Ctx {
            focus: focus.to_string(),
            log: EvLog::new(keep_text),
            counters: BTreeMap::new(),
            violation: None,
            other: BTreeMap::new(),
            states: Vec::new(),
            ileave: FNV0,
            nontrivial: false,
            sim_ticks: 0,
            sim_span: 0,
            ops: 0,
        }
    }

    #[inline]
    pub fn wants(&self, prop: &str) -> bool {
        self.focus == prop || self.focus == "ALL"
    }

    #[inline]
    pub fn failed(&self) -> bool {
        self.violation.is_some()
    }

    #[inline]
    pub fn bump(&mut self, name: &'static str) {
        *self.counters.entry(name).or_insert(0) += 1;
    }

    #[inline]
    pub fn add(&mut self, name: &'static str, n: u64) {
        *self.counters.entry(name).or_insert(0) += n;
    }

    /// Record a rule violation. Only the first violation of the focus property is kept.
    pub fn fail(&mut self, prop: &str, rule: &str, sig: &str, msg: String) {
        if self.wants(prop) {
            if self.violation.is_none() {
                let mut line = String::new();
                let _ = write!(line, "VIOLATED {prop}/{rule} [{sig}] {msg}");
                let _ = self.log.write_str(&line);
                self.log.end_event();
                self.violation = Some(Violation {
                    prop: prop.to_string(),
                    rule: rule.to_string(),
                    sig: sig.to_string(),
                    msg,
                });
            }
        } else {
            *self.other.entry(prop.to_string()).or_insert(0) += 1;
        }
    }

    pub fn state(&mut self, h: u64) {
        self.states.push(h);
    }

    pub fn ileave(&mut self, client: u64, bt: u64, kind: u64) {
        fnv(&mut self.ileave, client.wrapping_mul(1_000_003) ^ bt.wrapping_mul(10_007) ^ kind);
    }
}

/// `rule!(ctx, "C02", "fill-set", "limit-buy", cond, "fmt", args..)`: if `cond` is false record a
/// violation. The condition is evaluated only if the property is wanted.
#[macro_export]
macro_rules! rule {
    ($ctx:expr, $prop:expr, $rule:expr, $sig:expr, $cond:expr, $($arg:tt)*) => {{
        if $ctx.wants($prop) && !($cond) {
            $ctx.fail($prop, $rule, $sig, format!($($arg)*));
        }
    }};
}

// ------------------------------------------------------------------------------------------------
// stdout: the SUT prints (Jura's tick println!s the whole book). fd 1 is pointed at /dev/null and the
// harness reports through a saved duplicate of the original stdout.
// ------------------------------------------------------------------------------------------------

static mut REAL_STDOUT: i32 = 1;

pub fn silence_sut_stdout() {
    unsafe {
        let _ = std::io::stdout().flush();
        let saved = libc::dup(1);
        if saved < 0 {
            return;
        }
        let devnull = libc::open(b"/dev/null\0".as_ptr() as *const libc::c_char, libc::O_WRONLY);
        if devnull < 0 {
            return;
        }
        libc::dup2(devnull, 1);
        libc::close(devnull);
        REAL_STDOUT = saved;
    }
}

pub fn out_line(s: &str) {
    let fd = unsafe { REAL_STDOUT };
    let mut buf = Vec::with_capacity(s.len() + 1);
    buf.extend_from_slice(s.as_bytes());
    buf.push(b'\n');
    let mut off = 0;
    while off < buf.len() {
        let n = unsafe { libc::write(fd, buf[off..].as_ptr() as *const libc::c_void, buf.len() - off) };
        if n <= 0 {
            break;
        }
        off += n as usize;
    }
}

#[macro_export]
macro_rules! out {
    ($($arg:tt)*) => {{
        $crate::common::out_line(&format!($($arg)*));
    }};
}

// ------------------------------------------------------------------------------------------------
// panic capture: SUT panics are violations (rule `sut-panic`), never noise on stderr
// ------------------------------------------------------------------------------------------------

thread_local! {
    static LAST_PANIC: RefCell<Option<String>> = const { RefCell::new(None) };
}

pub fn install_panic_capture() {
    std::panic::set_hook(Box::new(|info| {
        let payload = if let Some(s) = info.payload().downcast_ref::<&str>() {
            (*s).to_string()
        } else if let Some(s) = info.payload().downcast_ref::<String>() {
            s.clone()
        } else {
            "<non-string panic payload>".to_string()
        };
        let loc = info
            .location()
            .map(|l| format!("{}:{}", l.file(), l.line()))
            .unwrap_or_default();
        LAST_PANIC.with(|p| *p.borrow_mut() = Some(format!("{payload} @ {loc}")));
    }));
}

pub fn take_last_panic() -> String {
    LAST_PANIC
        .with(|p| p.borrow_mut().take())
        .unwrap_or_else(|| "<panic>".to_string())
}

/// Run `f`, converting a panic into `Err(message @ file:line)`.
pub fn catch<T>(f: impl FnOnce() -> T) -> Result<T, String> {
    match std::panic::catch_unwind(std::panic::AssertUnwindSafe(f)) {
        Ok(v) => Ok(v),
        Err(_) => Err(take_last_panic()),
    }
}

/// Marker payload prefix used by the harness's own step budget (a non-terminating SUT loop).
pub const BUDGET_PANIC: &str = "VERIF-STEP-BUDGET";

/// Swarm: a small share of the runs is an order of magnitude longer than the rest (hundreds of dates,
/// hundreds to a thousand operations), so that thresholds short runs never reach are crossed too.
pub fn long_run(seed: u64, tier: Tier) -> bool {
    let mut r = crate::rng::Rng::new(seed).fork("long-run");
    r.one_in(if tier == Tier::Thorough { 10 } else { 100 })
}

/// Relative closeness with an absolute floor.
pub fn close(a: f64, b: f64, rel: f64) -> bool {
    if a == b {
        return true;
    }
    if !a.is_finite() || !b.is_finite() {
        return false;
    }
    let scale = a.abs().max(b.abs()).max(1.0);
    (a - b).abs() <= rel * scale
}
