//! A stand-in for the part of `reqwest::Client` that `uistv1_client::Client` / `jurav1_client::Client`
//! use (`get`, `post`, `json`, `send`, `Response::json`), so that the *real* client code — URL
//! formats, request bodies, response decoding — runs inside the simulation (shadow copy, build.rs
//! replaces `reqwest::Client` textually). Requests are routed to whatever in-memory service the
//! harness installed for the calling thread; URLs go through `url::Url::parse` exactly as reqwest
//! sends them (normalisation, percent-encoding). No sockets.

use serde::de::DeserializeOwned;
use serde::Serialize;
use std::cell::RefCell;
use std::fmt;

pub type Router = Box<dyn Fn(&str, &str, Option<Vec<u8>>) -> (u16, Vec<u8>)>;

thread_local! {
    static ROUTER: RefCell<Option<Router>> = const { RefCell::new(None) };
    static LOG: RefCell<Vec<String>> = const { RefCell::new(Vec::new()) };
}

pub fn install(r: Router) {
    ROUTER.with(|x| *x.borrow_mut() = Some(r));
}

pub fn uninstall() {
    ROUTER.with(|x| *x.borrow_mut() = None);
}

/// "METHOD path" of every request sent since the last call (for the event log).
pub fn take_log() -> Vec<String> {
    LOG.with(|l| std::mem::take(&mut *l.borrow_mut()))
}

#[derive(Debug)]
pub struct Error(pub String);

impl fmt::Display for Error {
    fn fmt(&self, f: &mut fmt::Formatter<'_>) -> fmt::Result {
        write!(f, "simulated http: {}", self.0)
    }
}

impl std::error::Error for Error {}

#[derive(Debug, Default, Clone)]
pub struct Client;

#[derive(Debug, Default)]
pub struct ClientBuilder;

impl ClientBuilder {
    pub fn timeout(self, _d: std::time::Duration) -> Self {
        self
    }
    pub fn connect_timeout(self, _d: std::time::Duration) -> Self {
        self
    }
    pub fn user_agent<V: AsRef<str>>(self, _v: V) -> Self {
        self
    }
    pub fn build(self) -> Result<Client, Error> {
        Ok(Client)
    }
}

impl Client {
    pub fn new() -> Self {
        Client
    }

    pub fn builder() -> ClientBuilder {
        ClientBuilder
    }

    fn request(&self, method: &'static str, url: &str) -> RequestBuilder {
        RequestBuilder { method, url: url.to_string(), body: None, query: Vec::new(), err: None }
    }

    pub fn get<U: AsRef<str>>(&self, url: U) -> RequestBuilder {
        self.request("GET", url.as_ref())
    }

    pub fn post<U: AsRef<str>>(&self, url: U) -> RequestBuilder {
        self.request("POST", url.as_ref())
    }

    pub fn put<U: AsRef<str>>(&self, url: U) -> RequestBuilder {
        self.request("PUT", url.as_ref())
    }

    pub fn delete<U: AsRef<str>>(&self, url: U) -> RequestBuilder {
        self.request("DELETE", url.as_ref())
    }
}

pub struct RequestBuilder {
    method: &'static str,
    url: String,
    body: Option<Vec<u8>>,
    query: Vec<String>,
    err: Option<String>,
}

impl RequestBuilder {
    pub fn json<T: Serialize + ?Sized>(mut self, v: &T) -> Self {
        match serde_json::to_vec(v) {
            Ok(b) => self.body = Some(b),
            Err(e) => self.err = Some(format!("request body: {e}")),
        }
        self
    }

    pub fn body<B: Into<Vec<u8>>>(mut self, b: B) -> Self {
        self.body = Some(b.into());
        self
    }

    /// Like reqwest: the pairs are url-encoded and appended to the query string.
    pub fn query<T: Serialize + ?Sized>(mut self, v: &T) -> Self {
        match serde_urlencoded::to_string(v) {
            Ok(q) => {
                if !q.is_empty() {
                    self.query.push(q);
                }
            }
            Err(e) => self.err = Some(format!("query: {e}")),
        }
        self
    }

    pub fn header<K: AsRef<str>, V: AsRef<str>>(self, _k: K, _v: V) -> Self {
        self
    }

    pub fn timeout(self, _d: std::time::Duration) -> Self {
        self
    }

    pub fn bearer_auth<T: std::fmt::Display>(self, _t: T) -> Self {
        self
    }

    pub async fn send(self) -> Result<Response, Error> {
        if let Some(e) = self.err {
            return Err(Error(e));
        }
        let mut url = url::Url::parse(&self.url).map_err(|e| Error(format!("bad url {:?}: {e}", self.url)))?;
        if !self.query.is_empty() {
            let mut q = url.query().map(|s| s.to_string()).unwrap_or_default();
            for part in &self.query {
                if !q.is_empty() {
                    q.push('&');
                }
                q.push_str(part);
            }
            url.set_query(Some(&q));
        }
        let mut target = url.path().to_string();
        if let Some(q) = url.query() {
            target.push('?');
            target.push_str(q);
        }
        LOG.with(|l| l.borrow_mut().push(format!("{} {}", self.method, target)));
        let r = ROUTER.with(|x| x.borrow().as_ref().map(|f| f(self.method, &target, self.body)));
        match r {
            Some((status, body)) => Ok(Response { status, body }),
            None => Err(Error("connection refused (no simulated service installed)".to_string())),
        }
    }
}

#[derive(Clone, Copy, Debug, PartialEq, Eq)]
pub struct StatusCode(pub u16);

impl StatusCode {
    pub fn as_u16(&self) -> u16 {
        self.0
    }
    pub fn is_success(&self) -> bool {
        (200..300).contains(&self.0)
    }
    pub fn is_client_error(&self) -> bool {
        (400..500).contains(&self.0)
    }
    pub fn is_server_error(&self) -> bool {
        (500..600).contains(&self.0)
    }
}

impl fmt::Display for StatusCode {
    fn fmt(&self, f: &mut fmt::Formatter<'_>) -> fmt::Result {
        write!(f, "{}", self.0)
    }
}

pub struct Response {
    status: u16,
    body: Vec<u8>,
}

impl Response {
    pub fn status(&self) -> StatusCode {
        StatusCode(self.status)
    }

    pub fn error_for_status(self) -> Result<Response, Error> {
        if (400..600).contains(&self.status) {
            Err(Error(format!("HTTP status {}", self.status)))
        } else {
            Ok(self)
        }
    }

    /// Like reqwest: decodes the body whatever the status was.
    pub async fn json<T: DeserializeOwned>(self) -> Result<T, Error> {
        serde_json::from_slice::<T>(&self.body).map_err(|e| Error(format!("error decoding response body (status {}): {e}", self.status)))
    }

    pub async fn text(self) -> Result<String, Error> {
        Ok(String::from_utf8_lossy(&self.body).into_owned())
    }

    pub async fn bytes(self) -> Result<Vec<u8>, Error> {
        Ok(self.body)
    }
}
