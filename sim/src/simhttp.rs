//! A stand-in for the part of `reqwest::Client` that `uistv1_client::Client` / `jurav1_client::Client`
//! use (`get`, `post`, `json`, `send`, `Response::json`), so that the *real* client code — URL
//! formats, request bodies, response decoding — runs inside the simulation (shadow copy, build.rs
//! replaces `reqwest::Client` textually). Requests are routed to whatever in-memory service the
//! harness installed for the calling thread; URLs go through `url::Url::parse` exactly as reqwest
//! sends them (normalisation, percent-encoding). No sockets.

use serde::de::DeserializeOwned;
use serde::Serialize;
use std::cell::RefCell;
use std::fmt;

pub type Router = Box<dyn Fn(&str, &str, Option<Vec<u8>>) -> (u16, Vec<u8>)>;

thread_local! {
    static ROUTER: RefCell<Option<Router>> = const { RefCell::new(None) };
    static LOG: RefCell<Vec<String>> = const { RefCell::new(Vec::new()) };
}

pub fn install(r: Router) {
    ROUTER.with(|x| *x.borrow_mut() = Some(r));
}

pub fn uninstall() {
    ROUTER.with(|x| *x.borrow_mut() = None);
}

/// "METHOD path" of every request sent since the last call (for the event log).
pub fn take_log() -> Vec<String> {
    LOG.with(|l| std::mem::take(&mut *l.borrow_mut()))
}

#[derive(Debug)]
pub struct Error(pub String);

impl fmt::Display for Error {
    fn fmt(&self, f: &mut fmt::Formatter<'_>) -> fmt::Result {
        write!(f, "simulated http: {}", self.0)
    }
}

impl std::error::Error for Error {}

#[derive(Debug, Default, Clone)]
pub struct Client;

impl Client {
    pub fn new() -> Self {
        Client
    }

    pub fn get<U: AsRef<str>>(&self, url: U) -> RequestBuilder {
        RequestBuilder { method: "GET", url: url.as_ref().to_string(), body: None, err: None }
    }

    pub fn post<U: AsRef<str>>(&self, url: U) -> RequestBuilder {
        RequestBuilder { method: "POST", url: url.as_ref().to_string(), body: None, err: None }
    }
}

pub struct RequestBuilder {
    method: &'static str,
    url: String,
    body: Option<Vec<u8>>,
    err: Option<String>,
}

impl RequestBuilder {
    pub fn json<T: Serialize + ?Sized>(mut self, v: &T) -> Self {
        match serde_json::to_vec(v) {
            Ok(b) => self.body = Some(b),
            Err(e) => self.err = Some(format!("request body: {e}")),
        }
        self
    }

    pub async fn send(self) -> Result<Response, Error> {
        if let Some(e) = self.err {
            return Err(Error(e));
        }
        let url = url::Url::parse(&self.url).map_err(|e| Error(format!("bad url {:?}: {e}", self.url)))?;
        let mut target = url.path().to_string();
        if let Some(q) = url.query() {
            target.push('?');
            target.push_str(q);
        }
        LOG.with(|l| l.borrow_mut().push(format!("{} {}", self.method, target)));
        let r = ROUTER.with(|x| x.borrow().as_ref().map(|f| f(self.method, &target, self.body)));
        match r {
            Some((status, body)) => Ok(Response { status, body }),
            None => Err(Error("connection refused (no simulated service installed)".to_string())),
        }
    }
}

pub struct Response {
    status: u16,
    body: Vec<u8>,
}

impl Response {
    pub fn status(&self) -> u16 {
        self.status
    }

    /// Like reqwest: decodes the body whatever the status was.
    pub async fn json<T: DeserializeOwned>(self) -> Result<T, Error> {
        serde_json::from_slice::<T>(&self.body).map_err(|e| Error(format!("error decoding response body (status {}): {e}", self.status)))
    }
}
