//! The transport seam on the client side: `SimClient` implements the SUT's own `UistClient` trait
//! over the shared in-process server. Per request the simulator decides *when* the request takes
//! effect and *when* the future resolves (all four are conforming implementations of the trait):
//!   Eager           effect at call time, ready future            (what TestClient does)
//!   Lazy            effect at first poll                         (what any `async fn` client does)
//!   LazyPending(k)  k Pending polls, then effect and Ready       (network latency before the request)
//!   EffectPending(k) effect at first poll, Ready k polls later   (latency of the response)
//! Every request and the response exactly as delivered is recorded in the wire log, which the
//! oracles read as "what the exchange really did for this broker".

use crate::common::BUDGET_PANIC;
use crate::server::{Rej, UistServer};
use anyhow::{anyhow, Result};
use rotala::exchange::uist_v1::{Order, OrderId, Trade};
use rotala::http::uist::uistv1_client::{BacktestId, UistClient};
use rotala::http::uist::uistv1_server::{FetchQuotesResponse, InfoResponse, InitResponse, NowResponse, TickResponse};
use rotala::input::penelope::PenelopeQuote;
use serde::{Deserialize, Serialize};
use std::cell::{Cell, RefCell};
use std::future::Future;
use std::pin::Pin;
use std::rc::Rc;
use std::task::{Context, Poll};

#[derive(Clone, Copy, Debug, PartialEq, Eq, Serialize, Deserialize)]
pub enum Delivery {
    Eager,
    Lazy,
    LazyPending(u8),
    EffectPending(u8),
    /// the request reaches the server at once, the response takes `ms` simulated milliseconds: the future is
    /// Pending once while the simulated clock jumps forward (timers of the code under test that are due
    /// fire), then Ready
    SlowResponse(u32),
    /// the request itself takes `ms` simulated milliseconds to reach the server
    SlowRequest(u32),
    /// fault: the request is lost before it reaches the server and the client returns Err. Honoured
    /// for insert_order only (every other request treats it as Lazy): it is the one request whose
    /// failure the broker claims to handle (OrderFailure)
    InsertFails,
    /// fault: the request is lost before it reaches the server and the client returns Err. Honoured for
    /// tick only (the broker's check() tolerates a failed tick; every other request treats it as Lazy)
    TickFails,
    /// fault: the server executes the request, the response is lost and the client returns Err. Honoured
    /// for tick and fetch_quotes (check() tolerates both); every other request treats it as Lazy
    ResponseLost,
}

#[derive(Clone, Debug)]
pub enum Wire {
    Tick { bt: u64, has_next: bool, trades: Vec<Trade>, admitted: Vec<Order>, clock_before: Option<i64>, clock_after: Option<i64> },
    Fetch { bt: u64, quotes: Vec<PenelopeQuote> },
    Insert { bt: u64, order: Order },
    Delete { bt: u64, id: u64 },
    Now { bt: u64, now: i64, has_next: bool },
    Init { id: u64 },
    Info { bt: u64 },
    Rejected { what: &'static str, status: u16 },
    /// an injected transport failure: the request never reached the server, or (fetch_quotes) its
    /// response was lost; the client got Err
    Failed { what: &'static str },
    /// an injected transport failure: this insert_order request never reached the server; the client got Err
    InsertLost { bt: u64, order: Order },
    /// the server ticked, the response was lost and the client got Err
    TickLost { bt: u64, has_next: bool, trades: Vec<Trade>, admitted: Vec<Order>, clock_after: Option<i64> },
}

pub struct Shared {
    pub srv: UistServer,
    pub wire: RefCell<Vec<Wire>>,
    /// delivery modes for the requests of the current op, used cyclically
    pub modes: RefCell<Vec<Delivery>>,
    pub mode_pos: Cell<usize>,
    /// requests left before the harness declares the run non-terminating
    pub budget: Cell<i64>,
    pub requests: Cell<u64>,
    pub lazy_effects: Cell<u64>,
    pub pending_polls: Cell<u64>,
    /// futures created but dropped without ever being polled to their effect
    pub dropped_unpolled: Cell<u64>,
    /// injected insert_order failures so far
    pub failed_inserts: Cell<u64>,
    /// injected lost tick requests / lost tick or fetch_quotes responses so far
    pub failed_ticks: Cell<u64>,
    pub lost_responses: Cell<u64>,
    /// faults the simulator may still inject (bounded liveness is stated for "once faults stop")
    pub fault_budget: Cell<i64>,
    /// simulated milliseconds slow deliveries let pass
    pub simulated_ms: Cell<u64>,
}

impl Shared {
    pub fn new(srv: UistServer, budget: i64) -> Rc<Shared> {
        Rc::new(Shared {
            srv,
            wire: RefCell::new(Vec::new()),
            modes: RefCell::new(vec![Delivery::Eager]),
            mode_pos: Cell::new(0),
            budget: Cell::new(budget),
            requests: Cell::new(0),
            lazy_effects: Cell::new(0),
            pending_polls: Cell::new(0),
            dropped_unpolled: Cell::new(0),
            failed_inserts: Cell::new(0),
            failed_ticks: Cell::new(0),
            lost_responses: Cell::new(0),
            fault_budget: Cell::new(i64::MAX),
            simulated_ms: Cell::new(0),
        })
    }

    pub fn set_modes(&self, m: &[Delivery]) {
        let mut g = self.modes.borrow_mut();
        g.clear();
        g.extend_from_slice(m);
        if g.is_empty() {
            g.push(Delivery::Eager);
        }
        self.mode_pos.set(0);
    }

    fn next_mode(&self) -> Delivery {
        let g = self.modes.borrow();
        let i = self.mode_pos.get();
        self.mode_pos.set(i + 1);
        g[i % g.len()]
    }

    /// May one more fault be injected? (consumes one unit of the fault budget)
    fn take_fault(&self) -> bool {
        let b = self.fault_budget.get();
        if b <= 0 {
            return false;
        }
        self.fault_budget.set(b - 1);
        true
    }

    fn spend(&self) {
        self.requests.set(self.requests.get() + 1);
        let b = self.budget.get() - 1;
        self.budget.set(b);
        if b < 0 {
            panic!("{BUDGET_PANIC}: request budget exhausted (the client loop does not terminate within the bound)");
        }
    }

    fn clock(&self, bt: u64) -> Option<i64> {
        self.srv.with_state(|s| s.backtests.get(&bt).map(|b| b.date))
    }

    pub fn wire_len(&self) -> usize {
        self.wire.borrow().len()
    }
}

fn rej(what: &'static str, sh: &Shared, r: Rej) -> anyhow::Error {
    sh.wire.borrow_mut().push(Wire::Rejected { what, status: r.status });
    anyhow!("{what}: status {} {}", r.status, r.note)
}

/// A future whose effect and completion times the simulator decides.
pub struct SimFut<T> {
    sh: Rc<Shared>,
    effect: Option<Box<dyn FnOnce() -> T>>,
    result: Option<T>,
    before: u8,
    after: u8,
    /// simulated milliseconds to let pass before the effect / between the effect and the result
    slow_before: u32,
    slow_after: u32,
}

impl<T> Unpin for SimFut<T> {}

impl<T> SimFut<T> {
    fn new(sh: Rc<Shared>, effect: Box<dyn FnOnce() -> T>) -> Self {
        sh.spend();
        let mode = sh.next_mode();
        Self::with_mode(sh, effect, mode)
    }

    fn with_mode(sh: Rc<Shared>, effect: Box<dyn FnOnce() -> T>, mode: Delivery) -> Self {
        let mut f = SimFut { sh, effect: Some(effect), result: None, before: 0, after: 0, slow_before: 0, slow_after: 0 };
        match mode {
            Delivery::Eager => {
                let e = f.effect.take().unwrap();
                f.result = Some(e());
            }
            Delivery::Lazy | Delivery::InsertFails | Delivery::TickFails | Delivery::ResponseLost => {}
            Delivery::LazyPending(k) => f.before = k,
            Delivery::EffectPending(k) => f.after = k,
            Delivery::SlowRequest(ms) => f.slow_before = ms,
            Delivery::SlowResponse(ms) => f.slow_after = ms,
        }
        f
    }
}

impl<T> Future for SimFut<T> {
    type Output = T;
    fn poll(self: Pin<&mut Self>, cx: &mut Context<'_>) -> Poll<T> {
        let me = self.get_mut();
        if me.slow_before > 0 {
            crate::exec::advance(me.slow_before as u64);
            me.sh.simulated_ms.set(me.sh.simulated_ms.get() + me.slow_before as u64);
            me.slow_before = 0;
            me.sh.pending_polls.set(me.sh.pending_polls.get() + 1);
            cx.waker().wake_by_ref();
            return Poll::Pending;
        }
        if me.before > 0 {
            me.before -= 1;
            me.sh.pending_polls.set(me.sh.pending_polls.get() + 1);
            cx.waker().wake_by_ref();
            return Poll::Pending;
        }
        if let Some(e) = me.effect.take() {
            me.sh.lazy_effects.set(me.sh.lazy_effects.get() + 1);
            me.result = Some(e());
        }
        if me.slow_after > 0 {
            crate::exec::advance(me.slow_after as u64);
            me.sh.simulated_ms.set(me.sh.simulated_ms.get() + me.slow_after as u64);
            me.slow_after = 0;
            me.sh.pending_polls.set(me.sh.pending_polls.get() + 1);
            cx.waker().wake_by_ref();
            return Poll::Pending;
        }
        if me.after > 0 {
            me.after -= 1;
            me.sh.pending_polls.set(me.sh.pending_polls.get() + 1);
            cx.waker().wake_by_ref();
            return Poll::Pending;
        }
        Poll::Ready(me.result.take().expect("SimFut polled after completion"))
    }
}

impl<T> Drop for SimFut<T> {
    fn drop(&mut self) {
        if self.effect.is_some() {
            self.sh.dropped_unpolled.set(self.sh.dropped_unpolled.get() + 1);
        }
    }
}

pub struct SimClient {
    pub sh: Rc<Shared>,
}

impl SimClient {
    pub fn new(sh: Rc<Shared>) -> Self {
        SimClient { sh }
    }
}

impl UistClient for SimClient {
    fn tick(&mut self, backtest_id: BacktestId) -> impl Future<Output = Result<TickResponse>> {
        let sh = self.sh.clone();
        self.sh.spend();
        let mode = self.sh.next_mode();
        if mode == Delivery::TickFails && self.sh.take_fault() {
            let sh2 = self.sh.clone();
            return SimFut::with_mode(
                self.sh.clone(),
                Box::new(move || {
                    sh2.failed_ticks.set(sh2.failed_ticks.get() + 1);
                    sh2.wire.borrow_mut().push(Wire::Failed { what: "tick" });
                    Err(anyhow!("injected fault: tick request lost"))
                }),
                Delivery::Lazy,
            );
        }
        let lose_response = mode == Delivery::ResponseLost && self.sh.take_fault();
        SimFut::with_mode(
            self.sh.clone(),
            Box::new(move || {
                let before = sh.clock(backtest_id);
                match sh.srv.tick(backtest_id) {
                    Ok(r) => {
                        if lose_response {
                            sh.lost_responses.set(sh.lost_responses.get() + 1);
                            sh.wire.borrow_mut().push(Wire::TickLost { bt: backtest_id, has_next: r.has_next, trades: r.executed_trades.clone(), admitted: r.inserted_orders.clone(), clock_after: sh.clock(backtest_id) });
                            return Err(anyhow!("injected fault: tick response lost"));
                        }
                        sh.wire.borrow_mut().push(Wire::Tick {
                            bt: backtest_id,
                            has_next: r.has_next,
                            trades: r.executed_trades.clone(),
                            admitted: r.inserted_orders.clone(),
                            clock_before: before,
                            clock_after: sh.clock(backtest_id),
                        });
                        Ok(r)
                    }
                    Err(e) => Err(rej("tick", &sh, e)),
                }
            }),
            if lose_response || matches!(mode, Delivery::TickFails | Delivery::ResponseLost | Delivery::InsertFails) { Delivery::Lazy } else { mode },
        )
    }

    fn delete_order(&mut self, order_id: OrderId, backtest_id: BacktestId) -> impl Future<Output = Result<()>> {
        let sh = self.sh.clone();
        SimFut::new(
            self.sh.clone(),
            Box::new(move || match sh.srv.delete(order_id, backtest_id) {
                Ok(()) => {
                    sh.wire.borrow_mut().push(Wire::Delete { bt: backtest_id, id: order_id });
                    Ok(())
                }
                Err(e) => Err(rej("delete_order", &sh, e)),
            }),
        )
    }

    fn insert_order(&mut self, order: Order, backtest_id: BacktestId) -> impl Future<Output = Result<()>> {
        let sh = self.sh.clone();
        self.sh.spend();
        let mode = self.sh.next_mode();
        if mode == Delivery::InsertFails && self.sh.take_fault() {
            let sh2 = self.sh.clone();
            return SimFut::with_mode(
                self.sh.clone(),
                Box::new(move || {
                    sh2.failed_inserts.set(sh2.failed_inserts.get() + 1);
                    sh2.wire.borrow_mut().push(Wire::InsertLost { bt: backtest_id, order });
                    Err(anyhow!("injected fault: insert_order request lost"))
                }),
                Delivery::Lazy,
            );
        }
        SimFut::with_mode(
            self.sh.clone(),
            Box::new(move || match sh.srv.insert(&order, backtest_id) {
                Ok(()) => {
                    sh.wire.borrow_mut().push(Wire::Insert { bt: backtest_id, order });
                    Ok(())
                }
                Err(e) => Err(rej("insert_order", &sh, e)),
            }),
            mode,
        )
    }

    fn fetch_quotes(&mut self, backtest_id: BacktestId) -> impl Future<Output = Result<FetchQuotesResponse>> {
        let sh = self.sh.clone();
        self.sh.spend();
        let mode = self.sh.next_mode();
        let lose_response = mode == Delivery::ResponseLost && self.sh.take_fault();
        SimFut::with_mode(
            self.sh.clone(),
            Box::new(move || match sh.srv.fetch(backtest_id) {
                Ok(r) => {
                    if lose_response {
                        sh.lost_responses.set(sh.lost_responses.get() + 1);
                        sh.wire.borrow_mut().push(Wire::Failed { what: "fetch_quotes" });
                        return Err(anyhow!("injected fault: fetch_quotes response lost"));
                    }
                    let mut q: Vec<PenelopeQuote> = r.quotes.values().cloned().collect();
                    q.sort_by(|a, b| a.symbol.cmp(&b.symbol));
                    sh.wire.borrow_mut().push(Wire::Fetch { bt: backtest_id, quotes: q });
                    Ok(r)
                }
                Err(e) => Err(rej("fetch_quotes", &sh, e)),
            }),
            if lose_response || matches!(mode, Delivery::TickFails | Delivery::ResponseLost | Delivery::InsertFails) { Delivery::Lazy } else { mode },
        )
    }

    fn init(&mut self, dataset_name: String) -> impl Future<Output = Result<InitResponse>> {
        let sh = self.sh.clone();
        SimFut::new(
            self.sh.clone(),
            Box::new(move || match sh.srv.init(&dataset_name) {
                Ok(id) => {
                    sh.wire.borrow_mut().push(Wire::Init { id });
                    Ok(InitResponse { backtest_id: id })
                }
                Err(e) => Err(rej("init", &sh, e)),
            }),
        )
    }

    fn info(&mut self, backtest_id: BacktestId) -> impl Future<Output = Result<InfoResponse>> {
        let sh = self.sh.clone();
        SimFut::new(
            self.sh.clone(),
            Box::new(move || match sh.srv.info(backtest_id) {
                Ok(r) => {
                    sh.wire.borrow_mut().push(Wire::Info { bt: backtest_id });
                    Ok(r)
                }
                Err(e) => Err(rej("info", &sh, e)),
            }),
        )
    }

    fn now(&mut self, backtest_id: BacktestId) -> impl Future<Output = Result<NowResponse>> {
        let sh = self.sh.clone();
        SimFut::new(
            self.sh.clone(),
            Box::new(move || match sh.srv.now(backtest_id) {
                Ok(r) => {
                    sh.wire.borrow_mut().push(Wire::Now { bt: backtest_id, now: r.now, has_next: r.has_next });
                    Ok(r)
                }
                Err(e) => Err(rej("now", &sh, e)),
            }),
        )
    }
}
