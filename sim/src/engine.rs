//! What an engine must provide to the batch runner, the shrinker and the replayer.

use crate::common::{Ctx, Tier};
use serde::{de::DeserializeOwned, Serialize};

pub trait Engine: Sync {
    /// A complete, PRNG-free description of one execution: world, configuration and the executed
    /// op list with every scheduler and fault decision spelled out.
    type Case: Serialize + DeserializeOwned + Clone + Send;

    fn name(&self) -> &'static str;

    /// Derive a case from `seed` (generation is interleaved with execution because the generator is
    /// state aware) and return it with the run's context.
    fn generate(&self, seed: u64, focus: &str, tier: Tier, keep_text: bool) -> (Self::Case, Ctx);

    /// Execute a recorded case. Pure function of the case and the code.
    fn replay(&self, case: &Self::Case, focus: &str, keep_text: bool) -> Ctx;

    fn ops_len(&self, case: &Self::Case) -> usize;

    /// The case with only the ops whose flag is true.
    fn retain_ops(&self, case: &Self::Case, keep: &[bool]) -> Self::Case;

    /// Other simplifications to try once the op list is minimal (truncate datasets, plain
    /// transport, ...). Each candidate is kept only if the same rule still fires.
    fn simplifications(&self, case: &Self::Case) -> Vec<Self::Case>;

    /// The SUT code this engine drives serialises threads (e.g. on the stdout lock): use worker
    /// processes instead of worker threads.
    fn prefers_processes(&self) -> bool {
        false
    }

    /// A short human-readable rendering of a case for evidence samples.
    fn sample(&self, case: &Self::Case) -> serde_json::Value {
        serde_json::to_value(case).unwrap_or(serde_json::Value::Null)
    }
}
