//! Thread-level simulation of the server (engine E5). The real actix handlers of a *shadow copy* of
//! `rotala::http::uist` (same source, read from /repo on every build, with `std::sync::Mutex` textually
//! replaced by the scheduler-aware mutex below; see build.rs) run on several simulated threads. The
//! threads are real OS threads, but exactly one of them runs at any time: a baton is passed at every
//! lock acquisition and release, and a seeded scheduler decides who gets it. The recorded sequence of
//! decisions is the schedule; replaying it reproduces the execution exactly.
//!
//! Oracle: linearizability. The concurrent history (invocation/response order stamped with the
//! scheduler's global step counter, responses in canonical text, final state digest) must be explained
//! by SOME sequential order of the same requests, consistent with each thread's program order and with
//! real time, executed in-process on a fresh state. This removes assumption A1 (handlers hold the lock
//! for their whole body): a handler that releases and re-takes the lock half-way is exposed by a
//! schedule that puts another thread's request into the gap.

use std::cell::{Cell, RefCell};
use std::collections::BTreeMap;
use std::sync::{Arc, Condvar, Mutex as StdMutex};

#[derive(Clone, Copy, Debug, PartialEq, Eq)]
enum Status {
    Runnable,
    Blocked(usize),
    Done,
}

pub enum Chooser {
    Random(crate::rng::Rng),
    Replay(Vec<u8>, usize),
}

struct Inner {
    current: usize,
    status: Vec<Status>,
    chooser: Chooser,
    trace: Vec<u8>,
    /// lock -> (writer, readers)
    owner: BTreeMap<usize, (Option<usize>, Vec<usize>)>,
    pub steps: u64,
    pub context_switches: u64,
    pub gave_up: bool,
}

pub struct Sched {
    m: StdMutex<Inner>,
    cv: Condvar,
}

thread_local! {
    static ME: Cell<usize> = const { Cell::new(usize::MAX) };
    static SCHED: RefCell<Option<Arc<Sched>>> = const { RefCell::new(None) };
}

impl Sched {
    pub fn new(n: usize, chooser: Chooser) -> Arc<Sched> {
        Arc::new(Sched {
            m: StdMutex::new(Inner { current: usize::MAX, status: vec![Status::Runnable; n], chooser, trace: Vec::new(), owner: BTreeMap::new(), steps: 0, context_switches: 0, gave_up: false }),
            cv: Condvar::new(),
        })
    }

    fn pick(g: &mut Inner) -> Option<usize> {
        let runnable: Vec<usize> = (0..g.status.len()).filter(|i| g.status[*i] == Status::Runnable).collect();
        if runnable.is_empty() {
            return None;
        }
        let t = match &mut g.chooser {
            Chooser::Random(r) => runnable[r.usize(runnable.len())],
            Chooser::Replay(v, pos) => {
                let want = v.get(*pos).copied().map(|x| x as usize);
                *pos += 1;
                match want {
                    Some(w) if runnable.contains(&w) => w,
                    _ => runnable[0],
                }
            }
        };
        g.trace.push(t as u8);
        Some(t)
    }

    /// A scheduling decision: hand the baton to a runnable thread (possibly the caller) and wait for it.
    fn switch(&self, me: usize) {
        let mut g = self.m.lock().unwrap();
        g.steps += 1;
        if g.steps > 100_000 {
            g.gave_up = true;
        }
        let next = Self::pick(&mut g);
        match next {
            Some(t) => {
                if t != me {
                    g.context_switches += 1;
                }
                g.current = t;
            }
            None => {
                // nobody can run: everybody is done, or it is a deadlock
                g.current = usize::MAX;
                if g.status.iter().any(|s| *s != Status::Done) {
                    g.gave_up = true;
                }
            }
        }
        self.cv.notify_all();
        if me == usize::MAX {
            return;
        }
        while g.current != me && !g.gave_up {
            g = self.cv.wait(g).unwrap();
        }
    }

    fn start(&self, me: usize) {
        let mut g = self.m.lock().unwrap();
        while g.current != me && !g.gave_up {
            g = self.cv.wait(g).unwrap();
        }
    }

    fn finish(&self, me: usize) {
        {
            let mut g = self.m.lock().unwrap();
            g.status[me] = Status::Done;
        }
        self.switch(usize::MAX);
    }

    fn acquire(&self, me: usize, lock: usize, exclusive: bool) {
        loop {
            // decision point before every acquisition attempt
            self.switch(me);
            let mut g = self.m.lock().unwrap();
            if g.gave_up {
                return;
            }
            let st = g.owner.entry(lock).or_insert((None, Vec::new()));
            let free = if exclusive { st.0.is_none() && st.1.is_empty() } else { st.0.is_none() };
            if free {
                if exclusive {
                    st.0 = Some(me);
                } else {
                    st.1.push(me);
                }
                return;
            }
            g.status[me] = Status::Blocked(lock);
            drop(g);
        }
    }

    fn release(&self, me: usize, lock: usize, exclusive: bool) {
        {
            let mut g = self.m.lock().unwrap();
            if let Some(st) = g.owner.get_mut(&lock) {
                if exclusive {
                    st.0 = None;
                } else if let Some(p) = st.1.iter().position(|t| *t == me) {
                    st.1.remove(p);
                }
            }
            for s in g.status.iter_mut() {
                if *s == Status::Blocked(lock) {
                    *s = Status::Runnable;
                }
            }
        }
        // decision point after every release
        self.switch(me);
    }

    pub fn step(&self) -> u64 {
        let mut g = self.m.lock().unwrap();
        g.steps += 1;
        g.steps
    }

    pub fn given_up(&self) -> bool {
        self.m.lock().unwrap().gave_up
    }

    pub fn kick_off(&self) {
        self.switch(usize::MAX);
    }

    pub fn result(&self) -> (Vec<u8>, u64, bool) {
        let g = self.m.lock().unwrap();
        (g.trace.clone(), g.context_switches, g.gave_up)
    }
}

pub fn enter(sched: &Arc<Sched>, me: usize) {
    ME.with(|m| m.set(me));
    SCHED.with(|s| *s.borrow_mut() = Some(sched.clone()));
    sched.start(me);
}

pub fn leave() {
    let me = ME.with(|m| m.get());
    let s = SCHED.with(|s| s.borrow_mut().take());
    ME.with(|m| m.set(usize::MAX));
    if let Some(s) = s {
        s.finish(me);
    }
}

pub fn global_step() -> u64 {
    SCHED.with(|s| s.borrow().as_ref().map_or(0, |s| s.step()))
}

pub mod shim {
    //! Drop-in for the part of `std::sync::Mutex` the handlers use (`lock().unwrap()`, deref).
    use super::{ME, SCHED};
    use std::ops::{Deref, DerefMut};

    pub struct Mutex<T> {
        inner: std::sync::Mutex<T>,
    }

    pub type MutexGuard<'a, T> = Guard<'a, T>;
    pub type RwLockReadGuard<'a, T> = ReadGuard<'a, T>;
    pub type RwLockWriteGuard<'a, T> = WriteGuard<'a, T>;

    pub struct Guard<'a, T> {
        g: Option<std::sync::MutexGuard<'a, T>>,
        lock: usize,
        scheduled: bool,
    }

    impl<T> Mutex<T> {
        pub fn new(v: T) -> Self {
            Mutex { inner: std::sync::Mutex::new(v) }
        }

        pub fn lock(&self) -> Result<Guard<'_, T>, String> {
            let id = self as *const _ as usize;
            let me = ME.with(|m| m.get());
            let sched = SCHED.with(|s| s.borrow().clone());
            match sched {
                Some(s) if me != usize::MAX => {
                    s.acquire(me, id, true);
                    // only the baton holder runs and the scheduler granted ownership: no contention. If the
                    // simulation was given up (deadlock: e.g. this very thread holds the lock in another
                    // task), the lock may still be taken: report it like a poisoned lock instead of blocking
                    match self.inner.try_lock() {
                        Ok(g) => Ok(Guard { g: Some(g), lock: id, scheduled: !s.given_up() }),
                        Err(std::sync::TryLockError::Poisoned(p)) => Ok(Guard { g: Some(p.into_inner()), lock: id, scheduled: !s.given_up() }),
                        Err(std::sync::TryLockError::WouldBlock) => Err("simulated deadlock: the lock is never released".to_string()),
                    }
                }
                _ => Ok(Guard { g: Some(self.inner.lock().unwrap_or_else(|p| p.into_inner())), lock: id, scheduled: false }),
            }
        }
    }

    /// Uniform read access for the harness, whatever lock type the server's state alias names.
    pub trait Peek<T> {
        fn make(v: T) -> Self;
        fn peek<R>(&self, f: impl FnOnce(&T) -> R) -> R;
    }

    impl<T> Peek<T> for Mutex<T> {
        fn make(v: T) -> Self {
            Mutex::new(v)
        }
        fn peek<R>(&self, f: impl FnOnce(&T) -> R) -> R {
            let g = self.inner.lock().unwrap_or_else(|p| p.into_inner());
            f(&g)
        }
    }

    impl<T> Deref for Guard<'_, T> {
        type Target = T;
        fn deref(&self) -> &T {
            self.g.as_ref().unwrap()
        }
    }

    impl<T> DerefMut for Guard<'_, T> {
        fn deref_mut(&mut self) -> &mut T {
            self.g.as_mut().unwrap()
        }
    }

    impl<T> Drop for Guard<'_, T> {
        fn drop(&mut self) {
            self.g.take();
            if self.scheduled {
                let me = ME.with(|m| m.get());
                if let Some(s) = SCHED.with(|s| s.borrow().clone()) {
                    s.release(me, self.lock, true);
                }
            }
        }
    }

    /// Drop-in for the part of `std::sync::RwLock` handlers would use (`read().unwrap()`, `write().unwrap()`).
    /// Readers share, a writer excludes: the scheduler keeps the books, the inner lock only stores the value.
    pub struct RwLock<T> {
        inner: std::sync::RwLock<T>,
    }

    pub struct ReadGuard<'a, T> {
        g: Option<std::sync::RwLockReadGuard<'a, T>>,
        lock: usize,
        scheduled: bool,
    }

    pub struct WriteGuard<'a, T> {
        g: Option<std::sync::RwLockWriteGuard<'a, T>>,
        lock: usize,
        scheduled: bool,
    }

    impl<T> RwLock<T> {
        pub fn new(v: T) -> Self {
            RwLock { inner: std::sync::RwLock::new(v) }
        }

        pub fn read(&self) -> Result<ReadGuard<'_, T>, String> {
            let id = self as *const _ as usize;
            let me = ME.with(|m| m.get());
            let sched = SCHED.with(|s| s.borrow().clone());
            match sched {
                Some(s) if me != usize::MAX => {
                    s.acquire(me, id, false);
                    match self.inner.try_read() {
                        Ok(g) => Ok(ReadGuard { g: Some(g), lock: id, scheduled: !s.given_up() }),
                        Err(std::sync::TryLockError::Poisoned(p)) => Ok(ReadGuard { g: Some(p.into_inner()), lock: id, scheduled: !s.given_up() }),
                        Err(std::sync::TryLockError::WouldBlock) => Err("simulated deadlock: the lock is never released".to_string()),
                    }
                }
                _ => Ok(ReadGuard { g: Some(self.inner.read().unwrap_or_else(|p| p.into_inner())), lock: id, scheduled: false }),
            }
        }

        pub fn write(&self) -> Result<WriteGuard<'_, T>, String> {
            let id = self as *const _ as usize;
            let me = ME.with(|m| m.get());
            let sched = SCHED.with(|s| s.borrow().clone());
            match sched {
                Some(s) if me != usize::MAX => {
                    s.acquire(me, id, true);
                    match self.inner.try_write() {
                        Ok(g) => Ok(WriteGuard { g: Some(g), lock: id, scheduled: !s.given_up() }),
                        Err(std::sync::TryLockError::Poisoned(p)) => Ok(WriteGuard { g: Some(p.into_inner()), lock: id, scheduled: !s.given_up() }),
                        Err(std::sync::TryLockError::WouldBlock) => Err("simulated deadlock: the lock is never released".to_string()),
                    }
                }
                _ => Ok(WriteGuard { g: Some(self.inner.write().unwrap_or_else(|p| p.into_inner())), lock: id, scheduled: false }),
            }
        }
    }

    impl<T> Peek<T> for RwLock<T> {
        fn make(v: T) -> Self {
            RwLock::new(v)
        }
        fn peek<R>(&self, f: impl FnOnce(&T) -> R) -> R {
            let g = self.inner.read().unwrap_or_else(|p| p.into_inner());
            f(&g)
        }
    }

    impl<T> Deref for ReadGuard<'_, T> {
        type Target = T;
        fn deref(&self) -> &T {
            self.g.as_ref().unwrap()
        }
    }

    impl<T> Deref for WriteGuard<'_, T> {
        type Target = T;
        fn deref(&self) -> &T {
            self.g.as_ref().unwrap()
        }
    }

    impl<T> DerefMut for WriteGuard<'_, T> {
        fn deref_mut(&mut self) -> &mut T {
            self.g.as_mut().unwrap()
        }
    }

    impl<T> Drop for ReadGuard<'_, T> {
        fn drop(&mut self) {
            self.g.take();
            if self.scheduled {
                let me = ME.with(|m| m.get());
                if let Some(s) = SCHED.with(|s| s.borrow().clone()) {
                    s.release(me, self.lock, false);
                }
            }
        }
    }

    impl<T> Drop for WriteGuard<'_, T> {
        fn drop(&mut self) {
            self.g.take();
            if self.scheduled {
                let me = ME.with(|m| m.get());
                if let Some(s) = SCHED.with(|s| s.borrow().clone()) {
                    s.release(me, self.lock, true);
                }
            }
        }
    }
}

// `shadow_uist` / `shadow_jura`: the mirrored tree of rotala/src/http (see build.rs)
#[cfg(shadow_http)]
include!(concat!(env!("OUT_DIR"), "/shadow_mods.rs"));
