//! Engine E4: the real `StaticWeightStrategy` driving a real `UistBroker<SimClient>` against a real
//! server, either with its own `run()` loop (the harness watches the wire and a request budget) or
//! stepped by the harness with withdrawals interleaved. Decides C16.

use crate::common::{catch, close, Ctx, Tier, BUDGET_PANIC, X};
use crate::e3::{broker_world, build_server, costs_to_sut, gen_costs, gen_modes, gen_modes_f, realise, CostSpec, Ledger};
use crate::engine::Engine;
use crate::exec::block_on;
use crate::rng::Rng;
use crate::server::Path;
use crate::simclient::{Delivery, Shared, SimClient, Wire};
use crate::world::{gen_dataset, DatasetSpec, WorldStats};
use crate::{ev, rule};
use alator::broker::uist::{UistBroker, UistBrokerBuilder};
use alator::broker::{Clock, Portfolio, StrategySnapshot};
use alator::strategy::staticweight::{StaticWeightStrategy, StaticWeightStrategyBuilder};
use alator::strategy::StrategyEvent;
use rotala::exchange::uist_v1::{Order, UistQuote};
use serde::{Deserialize, Serialize};
use std::rc::Rc;

type Strat = StaticWeightStrategy<UistQuote, Order, UistBroker<SimClient>>;

#[derive(Clone, Debug, Serialize, Deserialize)]
pub enum SOp {
    /// the strategy's own loop: `run().await`
    RunLoop,
    Update,
    Withdraw { amt: X },
    WithdrawLiq { amt: X },
    /// `init` called again later in the run: another deposit followed by a rebalance
    InitAgain { amt: X },
}

#[derive(Clone, Debug, Serialize, Deserialize)]
pub struct OpRec {
    pub op: SOp,
    pub perm: u64,
    pub modes: Vec<Delivery>,
    /// how many transport faults the simulator may inject during this op (then faults stop)
    #[serde(default)]
    pub fault_budget: u32,
}

#[derive(Clone, Debug, Serialize, Deserialize)]
pub struct Case {
    pub path: Path,
    pub single: bool,
    pub dataset: DatasetSpec,
    pub flat_world: bool,
    pub costs: Vec<CostSpec>,
    /// target weights in the key order the map is realised in
    pub weights: Vec<(String, X)>,
    pub deposit: X,
    pub init_perm: u64,
    pub init_modes: Vec<Delivery>,
    pub ops: Vec<OpRec>,
}

pub struct E4;

struct Sim<'a> {
    ctx: Ctx,
    case: &'a Case,
    sh: Rc<Shared>,
    strat: Strat,
    led: Ledger,
    wire_seen: usize,
    /// ledger valuation after each (tick, fetch) pair seen on the wire
    valuations: Vec<(f64, f64)>,
    updates: usize,
    hist_seen: usize,
    deposits: f64,
    withdrawn: f64,
    any_withdrawal_attempt: bool,
    aborted: bool,
    bt: u64,
    /// the server's clock after each tick attempt of the strategy (one attempt per update)
    attempts: Vec<i64>,
    last_clock: i64,
    /// attempts that advanced the server (delivered or response lost)
    server_ticks: usize,
    lost_tick_requests: usize,
}

impl<'a> Sim<'a> {
    fn new(case: &'a Case, focus: &str, keep_text: bool) -> Result<Self, String> {
        let ctx = Ctx::new(focus, keep_text);
        let (srv, bt) = build_server(case.path, case.single, &case.dataset);
        let n = case.dataset.n() as i64;
        let nsym = case.dataset.symbols.len() as i64;
        // per update: tick, fetch, now x3 (loop condition, update, snapshot), one insert per symbol
        // plus automatic liquidation sells; generous factor 4, exhausted only by a loop that never ends
        let budget = 4 * (n + 2) * (6 + 2 * nsym) + 64;
        let sh = Shared::new(srv, budget);
        sh.set_modes(&case.init_modes);
        let client = SimClient::new(sh.clone());
        let costs = costs_to_sut(&case.costs);
        let w: Vec<(String, f64)> = case.weights.iter().map(|(s, x)| (s.clone(), x.0)).collect();
        let strat = catch(move || {
            let brkr = block_on(async move { UistBrokerBuilder::new().with_client(client, bt).with_trade_costs(costs).build().await });
            StaticWeightStrategyBuilder::new().with_brkr(brkr).with_weights(realise(&w)).default()
        })?;
        Ok(Sim {
            ctx,
            case,
            sh,
            strat,
            led: Ledger::new(),
            wire_seen: 0,
            valuations: Vec::new(),
            updates: 0,
            hist_seen: 0,
            deposits: 0.0,
            withdrawn: 0.0,
            any_withdrawal_attempt: false,
            aborted: false,
            bt,
            attempts: Vec::new(),
            last_clock: case.dataset.dates[0],
            server_ticks: 0,
            lost_tick_requests: 0,
        })
    }

    fn push_valuation(&mut self) {
        let mut v = self.led.cash;
        let mut mag = self.led.cash.abs().max(1.0);
        for (s, q) in &self.led.holdings {
            if let Some(lq) = self.led.last_quotes.get(s) {
                v += q * lq.0;
                mag += (q * lq.0).abs();
            }
        }
        self.valuations.push((v, mag));
    }

    fn book(&mut self, ts: &[rotala::exchange::uist_v1::Trade]) {
        for t in ts {
            self.led.book_trade(t);
        }
        self.ctx.add("fills_reconciled", ts.len() as u64);
    }

    /// One tick attempt per update: delivered (then its quote request succeeds or fails), response lost,
    /// or request lost. After each attempt the ledger is valued: that is what the snapshot of this update
    /// must report.
    fn absorb_wire(&mut self) {
        let wire: Vec<Wire> = self.sh.wire.borrow()[self.wire_seen..].to_vec();
        let mut pending: Option<Vec<rotala::exchange::uist_v1::Trade>> = None;
        for w in wire.iter() {
            match w {
                Wire::Tick { trades, clock_after, .. } => {
                    if let Some(ts) = pending.take() {
                        // a tick whose quote request never happened: its trades arrived all the same
                        self.book(&ts);
                        self.push_valuation();
                    }
                    pending = Some(trades.clone());
                    self.ctx.sim_ticks += 1;
                    self.server_ticks += 1;
                    self.last_clock = clock_after.unwrap_or(self.last_clock);
                    self.attempts.push(self.last_clock);
                }
                Wire::TickLost { trades, clock_after, .. } => {
                    // unknowable to the broker: nothing is booked
                    self.ctx.sim_ticks += 1;
                    self.server_ticks += 1;
                    self.last_clock = clock_after.unwrap_or(self.last_clock);
                    self.attempts.push(self.last_clock);
                    self.ctx.bump("f10_tick_response_lost");
                    self.ctx.add("f10_trades_the_broker_could_not_learn_of", trades.len() as u64);
                    ev!(self.ctx, "fault: the server ticked ({} trades), the tick response was lost", trades.len());
                    self.push_valuation();
                }
                Wire::Fetch { quotes, .. } => {
                    for q in quotes {
                        self.led.last_quotes.insert(q.symbol.clone(), (q.bid, q.ask, q.date));
                    }
                    if let Some(ts) = pending.take() {
                        self.book(&ts);
                        self.push_valuation();
                    }
                }
                Wire::InsertLost { .. } => {
                    ev!(self.ctx, "fault: insert_order failed at the transport (client returned Err)");
                    self.ctx.bump("f10_insert_order_request_lost");
                }
                Wire::Failed { what } => {
                    ev!(self.ctx, "fault: {what} failed at the transport (client returned Err)");
                    match *what {
                        "tick" => {
                            self.ctx.bump("f10_tick_request_lost");
                            self.lost_tick_requests += 1;
                            self.attempts.push(self.last_clock);
                            self.push_valuation();
                        }
                        _ => {
                            self.ctx.bump("f10_quote_response_lost");
                            if let Some(ts) = pending.take() {
                                self.book(&ts);
                                self.push_valuation();
                            }
                        }
                    }
                }
                _ => {}
            }
        }
        if let Some(ts) = pending.take() {
            self.book(&ts);
            self.push_valuation();
        }
        self.wire_seen = self.sh.wire_len();
    }

    fn clock(&self) -> Option<i64> {
        self.sh.srv.with_state(|s| s.backtests.get(&self.bt).map(|b| b.date))
    }

    /// Rules on the snapshots recorded since the last call.
    fn check_history(&mut self, stepped_value: Option<f64>) {
        let hist: Vec<StrategySnapshot> = self.strat.get_history();
        let ds = &self.case.dataset;
        let n = ds.n();
        for (j, snap) in hist.iter().enumerate().skip(self.hist_seen) {
            if !snap.portfolio_value.is_finite() || self.valuations.get(j).map_or(false, |v| !v.0.is_finite()) {
                // an order sized by a division by an exactly-zero net price (per-share fee == quote)
                // made money infinite: outside the domain; the run ends here, unjudged
                self.ctx.bump("skipped_out_of_domain_non_finite_values");
                self.aborted = true;
                self.hist_seen = hist.len();
                return;
            }
            // j-th update (0-based) performs tick attempt j: the snapshot is dated by the server's clock after
            // it (without faults: date min(j+1, n-1))
            let want_date = self.attempts.get(j).copied().unwrap_or(ds.dates[(j + 1).min(n - 1)]);
            let date: i64 = snap.date.into();
            rule!(
                self.ctx, "C16", "snapshot-date", "history", date == want_date,
                "snapshot #{j} is dated {date}, the clock after tick attempt {} shows {want_date}", j + 1
            );
            if j > 0 {
                let prev: i64 = hist[j - 1].date.into();
                rule!(self.ctx, "C16", "dates-decrease", "history", date >= prev, "snapshot dates decrease: {prev} then {date}");
            }
            let flows = self.deposits - self.withdrawn;
            rule!(
                self.ctx, "C16", "net-cash-flow", "history", close(snap.net_cash_flow, flows, 1e-9),
                "snapshot #{j}: net_cash_flow {:?} but deposits {:?} - successful withdrawals {:?} = {:?}", snap.net_cash_flow, self.deposits, self.withdrawn, flows
            );
            if let Some((v, mag)) = self.valuations.get(j) {
                rule!(
                    self.ctx, "C16", "portfolio-value-vs-wire", "history", (snap.portfolio_value - *v).abs() <= 1e-9 * mag,
                    "snapshot #{j}: portfolio_value {:?} but cash flows and the exchange's executions valued at the last delivered bids give {:?}", snap.portfolio_value, v
                );
            }
            if self.case.flat_world && !self.any_withdrawal_attempt {
                rule!(
                    self.ctx, "C16", "trading-creates-value", "constant-prices", close(snap.portfolio_value, self.case.deposit.0, 1e-6),
                    "constant prices, zero spread: snapshot #{j} values the portfolio at {:?} but {:?} was deposited", snap.portfolio_value, self.case.deposit.0
                );
                self.ctx.bump("probe_constant_price_snapshots");
            }
        }
        if let (Some(v), Some(last)) = (stepped_value, hist.last()) {
            if hist.len() > self.hist_seen {
                rule!(
                    self.ctx, "C16", "portfolio-value-vs-broker", "stepped", last.portfolio_value == v || close(last.portfolio_value, v, 1e-12),
                    "snapshot #{}: portfolio_value {:?} but the broker's total value at that moment is {:?}", hist.len() - 1, last.portfolio_value, v
                );
            }
        }
        self.hist_seen = hist.len();
    }

    fn init(&mut self) {
        self.sh.set_modes(&self.case.init_modes);
        self.sh.fault_budget.set(0);
        alator::verif::set_positions_seed(Some(self.case.init_perm));
        let dep = self.case.deposit.0;
        let r = catch(|| crate::exec::enter(|| self.strat.init(&dep)));
        alator::verif::set_positions_seed(None);
        match r {
            Ok(()) => {
                self.deposits += dep;
                self.led.cash += dep;
                self.led.deposits += dep;
                self.absorb_wire();
                ev!(self.ctx, "init {:?} -> cash {:?}", dep, self.strat.verif_brkr().get_cash_balance());
                rule!(
                    self.ctx, "C16", "net-cash-flow", "init", close(self.strat.verif_net_cash_flow(), dep, 1e-9),
                    "after init({dep:?}) net_cash_flow is {:?}", self.strat.verif_net_cash_flow()
                );
            }
            Err(p) => {
                ev!(self.ctx, "PANIC {p}");
                self.ctx.fail("C16", "sut-panic", "init", format!("strategy init panicked: {p}"));
                self.aborted = true;
            }
        }
    }

    fn exec(&mut self, rec: &OpRec) {
        self.ctx.ops += 1;
        self.ctx.ileave(0, rec.modes.len() as u64, match rec.op { SOp::RunLoop => 1, SOp::Update => 2, SOp::Withdraw { .. } => 3, SOp::WithdrawLiq { .. } => 4, SOp::InitAgain { .. } => 5 });
        self.sh.set_modes(&rec.modes);
        self.sh.fault_budget.set(rec.fault_budget as i64);
        alator::verif::set_positions_seed(Some(rec.perm));
        self.ctx.bump("f9_positions_permutations_installed");
        let r = catch(|| crate::exec::enter(|| self.exec_inner(rec)));
        alator::verif::set_positions_seed(None);
        if let Err(p) = r {
            ev!(self.ctx, "PANIC {p}");
            if p.contains(BUDGET_PANIC) {
                self.ctx.fail(
                    "C16", "loop-does-not-terminate", "budget",
                    format!("the strategy loop on a {}-date dataset was still issuing requests after {} requests ({} snapshots so far)", self.case.dataset.n(), self.sh.requests.get(), self.strat.get_history().len()),
                );
            } else if p.contains("Client is attempting to trade a portfolio with zero value") || {
                // recognised by the condition as well as by the text (a reworded message must not alarm)
                alator::verif::set_positions_seed(Some(0));
                let zero = catch(|| self.strat.verif_brkr().get_liquidation_value() == 0.0).unwrap_or(false);
                alator::verif::set_positions_seed(None);
                zero
            } {
                // documented panic (the suite's diff_panics_if_brkr_has_no_cash expects it): a portfolio
                // whose value is exactly zero is outside the domain; the run ends here, unjudged
                self.ctx.bump("skipped_out_of_domain_zero_value_portfolio");
            } else {
                self.ctx.fail("C16", "sut-panic", "strategy", format!("SUT panicked during {:?}: {p}", rec.op));
            }
            self.aborted = true;
        }
    }

    fn exec_inner(&mut self, rec: &OpRec) {
        let n = self.case.dataset.n();
        match &rec.op {
            SOp::RunLoop => {
                block_on(self.strat.run());
                self.absorb_wire();
                let h = self.strat.get_history().len();
                ev!(self.ctx, "run -> {} snapshots, clock {:?}", h, self.clock());
                self.updates = h;
                // every update attempts one tick; the loop ends once N of them have reached the server, so a tick
                // request lost on the way (injected, at most `fault_budget` of them) costs exactly one more update
                let want = n + self.lost_tick_requests;
                rule!(
                    self.ctx, "C16", "exactly-n-updates", "run", h == want,
                    "run() on a dataset of {n} dates recorded {h} snapshots ({} tick requests were lost by the transport: {want} updates are needed)", self.lost_tick_requests
                );
                self.check_history(None);
                if h == want {
                    self.ctx.nontrivial = true;
                }
            }
            SOp::Update => {
                let has_next = self.strat.verif_brkr_mut().has_next();
                rule!(
                    self.ctx, "C16", "has-next", "stepped", has_next == (self.server_ticks < n),
                    "after {} updates ({} ticks reached the server) on a {n}-date dataset the loop condition has_next is {has_next}", self.updates, self.server_ticks
                );
                if !has_next {
                    return;
                }
                block_on(self.strat.update());
                self.updates += 1;
                self.absorb_wire();
                let v = self.strat.verif_brkr().get_total_value();
                ev!(self.ctx, "update #{} -> value {:?} clock {:?}", self.updates, v, self.clock());
                {
                    use alator::broker::{BrokerState, BrokerStates};
                    let b = self.strat.verif_brkr();
                    let mut d = crate::clock::Digest::new();
                    d.b(matches!(b.get_broker_state(), BrokerState::Failed))
                        .b(b.get_cash_balance() < 0.0)
                        .u(b.get_holdings().len().min(4) as u64)
                        .u(b.get_pending_orders().len().min(4) as u64)
                        .u(if self.server_ticks < n { 0 } else { 1 });
                    self.ctx.state(d.0);
                }
                self.check_history(Some(v));
                rule!(
                    self.ctx, "C16", "one-snapshot-per-update", "stepped", self.strat.get_history().len() == self.updates,
                    "{} updates but {} snapshots", self.updates, self.strat.get_history().len()
                );
                if self.server_ticks == n {
                    self.ctx.nontrivial = true;
                }
            }
            SOp::Withdraw { amt } => {
                self.any_withdrawal_attempt = true;
                let cash0 = self.strat.verif_brkr().get_cash_balance();
                let e = self.strat.withdraw_cash(&amt.0);
                let ok = matches!(e, StrategyEvent::WithdrawSuccess(_));
                ev!(self.ctx, "withdraw {:?} -> {}", amt.0, if ok { "success" } else { "failure" });
                if ok {
                    self.withdrawn += amt.0;
                    self.led.cash -= amt.0;
                    self.ctx.bump("probe_interleaved_withdrawals");
                    let _ = cash0;
                }
                self.absorb_wire();
                rule!(
                    self.ctx, "C16", "net-cash-flow", "withdraw", close(self.strat.verif_net_cash_flow(), self.deposits - self.withdrawn, 1e-9),
                    "after withdraw: net_cash_flow {:?}, deposits {:?} - successful withdrawals {:?}", self.strat.verif_net_cash_flow(), self.deposits, self.withdrawn
                );
            }
            SOp::InitAgain { amt } => {
                self.any_withdrawal_attempt = true; // the constant-price clause speaks of a single deposit
                let cash0 = self.strat.verif_brkr().get_cash_balance();
                self.strat.init(&amt.0);
                self.absorb_wire();
                let cash1 = self.strat.verif_brkr().get_cash_balance();
                // successful iff the broker really credited it (it refuses deposits once Failed)
                let ok = cash1 - cash0 == amt.0 || crate::common::close(cash1 - cash0, amt.0, 1e-12);
                ev!(self.ctx, "init-again {:?} -> {}", amt.0, if ok { "deposited" } else { "refused" });
                if ok {
                    self.deposits += amt.0;
                    self.led.cash += amt.0;
                    self.led.deposits += amt.0;
                    self.ctx.bump("probe_second_deposit");
                } else {
                    self.ctx.bump("probe_deposit_refused_by_failed_broker");
                }
                rule!(
                    self.ctx, "C16", "net-cash-flow", "init-again", close(self.strat.verif_net_cash_flow(), self.deposits - self.withdrawn, 1e-9),
                    "after a second init({:?}) that the broker {}: net_cash_flow {:?}, successful deposits {:?} - successful withdrawals {:?}",
                    amt.0, if ok { "accepted" } else { "refused" }, self.strat.verif_net_cash_flow(), self.deposits, self.withdrawn
                );
            }
            SOp::WithdrawLiq { amt } => {
                self.any_withdrawal_attempt = true;
                let cash0 = self.strat.verif_brkr().get_cash_balance();
                let e = self.strat.withdraw_cash_with_liquidation(&amt.0);
                let ok = matches!(e, StrategyEvent::WithdrawSuccess(_));
                ev!(self.ctx, "withdraw-with-liquidation {:?} -> {}", amt.0, if ok { "success" } else { "failure" });
                if ok {
                    self.withdrawn += amt.0;
                    self.ctx.bump("probe_interleaved_liquidation_withdrawals");
                }
                // the broker's ledger: only what its cash really did (C04/C10 decide the broker side)
                let cash1 = self.strat.verif_brkr().get_cash_balance();
                self.led.cash += cash1 - cash0;
                self.absorb_wire();
                rule!(
                    self.ctx, "C16", "net-cash-flow", "withdraw-liq", close(self.strat.verif_net_cash_flow(), self.deposits - self.withdrawn, 1e-9),
                    "after withdraw-with-liquidation: net_cash_flow {:?}, deposits {:?} - successful withdrawals {:?}", self.strat.verif_net_cash_flow(), self.deposits, self.withdrawn
                );
            }
        }
    }
}

fn finish(sim: &mut Sim) {
    alator::verif::set_positions_seed(None);
    sim.ctx.add("requests", sim.sh.requests.get());
    sim.ctx.add("f6_lazy_effects", sim.sh.lazy_effects.get());
    sim.ctx.add("f6_pending_polls", sim.sh.pending_polls.get());
    sim.ctx.add("f6_simulated_ms_waited_for_slow_deliveries", sim.sh.simulated_ms.get());
    sim.ctx.add("f6_futures_dropped_unpolled", sim.sh.dropped_unpolled.get());
    sim.ctx.add("strategy_updates", sim.updates as u64);
    let ds = &sim.case.dataset;
    sim.ctx.sim_span = ds.dates[sim.updates.min(ds.n() - 1)].saturating_sub(ds.dates[0]);
}

fn gen_weights(rng: &mut Rng, ds: &DatasetSpec) -> Vec<(String, X)> {
    let mut pool: Vec<String> = ds.symbols.clone();
    if rng.one_in(8) {
        pool.push("NOPE".to_string());
    }
    rng.shuffle(&mut pool);
    let n = rng.range(1, pool.len().min(5) as i64) as usize;
    let mut left = 1.0f64;
    let mut ws = Vec::new();
    for s in pool.into_iter().take(n) {
        let w = *rng.pick(&[0.0, 0.1, 0.2, 0.25, 0.3, 0.5, 0.5, 1.0]);
        let w = if w > left { left } else { w };
        left -= w;
        ws.push((s, X(w)));
    }
    ws
}

impl Engine for E4 {
    type Case = Case;

    fn name(&self) -> &'static str {
        "e4-strategy"
    }

    fn generate(&self, seed: u64, focus: &str, tier: Tier, keep_text: bool) -> (Case, Ctx) {
        let root = Rng::new(seed);
        let mut w = root.fork("world");
        let mut st = WorldStats::default();
        let mut cfg = broker_world(tier);
        let flat_world = w.one_in(4);
        cfg.flat = flat_world;
        cfg.n_min = 1;
        cfg.n_max = if crate::common::long_run(seed, tier) { if tier == Tier::Thorough { 1200 } else { 600 } } else if tier == Tier::Thorough { *w.pick(&[40usize, 200, 1500]) } else { 40 };
        if crate::common::long_run(seed, tier) {
            cfg.n_min = 300;
        }
        let dataset = gen_dataset(&mut w, "fake", &cfg, &mut st);
        let path = if w.one_in(4) { Path::Json } else { Path::Direct };
        let single = w.one_in(2);
        let costs = gen_costs(&mut w);
        let weights = gen_weights(&mut w, &dataset);
        let deposit = X(*w.pick(&[100_000.0, 100_000.0, 10_000.0, 1_000_000.0, 12_345.5]));
        let mut g = root.fork("ops");
        let eager_only = g.one_in(4);
        let delay_p = *g.pick(&[0.0, 0.2, 0.5]);
        let run_mode = flat_world || g.one_in(2);
        // transport faults (lost insert / tick requests, lost tick / quote responses), a bounded number per
        // op; drawn from a fork so that the fault-free runs stay what they were
        let mut fg = root.fork("faults");
        let fail_p = if eager_only { 0.0 } else { *fg.pick(&[0.0, 0.0, 0.0, 0.1, 0.3]) };
        let init_modes = gen_modes(&mut g, eager_only, delay_p);
        let mut case = Case { path, single, dataset, flat_world, costs, weights, deposit, init_perm: g.next_u64(), init_modes, ops: Vec::new() };
        let world = case.clone();
        let mut sim = match Sim::new(&world, focus, keep_text) {
            Ok(s) => s,
            Err(p) => {
                let mut ctx = Ctx::new(focus, keep_text);
                ctx.fail("C16", "sut-panic", "builder", format!("builder panicked: {p}"));
                return (case, ctx);
            }
        };
        sim.ctx.add("f1_quote_gaps_in_world", st.gaps);
        sim.ctx.add("crossed_quotes_in_world", st.crossed);
        sim.ctx.add("f2_price_jumps_in_world", st.jumps);
        if path == Path::Json {
            sim.ctx.bump("runs_json_path");
        }
        if flat_world {
            sim.ctx.bump("runs_constant_price_zero_spread");
        }
        sim.init();
        if run_mode {
            sim.ctx.bump("runs_own_loop");
            let modes = if fail_p > 0.0 { gen_modes_f(&mut fg, eager_only, delay_p, fail_p) } else { gen_modes(&mut g, eager_only, delay_p) };
            let rec = OpRec { op: SOp::RunLoop, perm: g.next_u64(), modes, fault_budget: if fail_p > 0.0 { fg.range(1, 8) as u32 } else { 0 } };
            if !sim.ctx.failed() && !sim.aborted {
                sim.exec(&rec);
            }
            case.ops.push(rec);
        } else {
            sim.ctx.bump("runs_stepped");
            let n = world.dataset.n();
            let mut guard = 0;
            while !sim.ctx.failed() && !sim.aborted && sim.server_ticks < n + 1 && guard < 4 * n + 8 {
                guard += 1;
                alator::verif::set_positions_seed(Some(0));
                let b = sim.strat.verif_brkr();
                let cash = b.get_cash_balance();
                let total = b.get_total_value();
                alator::verif::set_positions_seed(None);
                let op = match g.usize(12) {
                    10 => SOp::InitAgain { amt: X(*g.pick(&[1000.0, 50_000.0, 100_000.0])) },
                    0 => SOp::Withdraw { amt: X(*g.pick(&[100.0, 1000.0, (cash / 2.0).floor().max(1.0), cash + 1.0])) },
                    1 => SOp::WithdrawLiq { amt: X((cash.max(0.0) + (total - cash).max(0.0) * g.f64() * 0.5).floor() + 1.0) },
                    _ => SOp::Update,
                };
                let modes = if fail_p > 0.0 { gen_modes_f(&mut fg, eager_only, delay_p, fail_p) } else { gen_modes(&mut g, eager_only, delay_p) };
                let rec = OpRec { op, perm: g.next_u64(), modes, fault_budget: if fail_p > 0.0 { fg.range(0, 2) as u32 } else { 0 } };
                let was = sim.updates;
                sim.exec(&rec);
                let is_update = matches!(rec.op, SOp::Update);
                case.ops.push(rec);
                if is_update && sim.updates == was {
                    break; // has_next turned false
                }
            }
        }
        finish(&mut sim);
        let ctx = sim.ctx;
        (case, ctx)
    }

    fn replay(&self, case: &Case, focus: &str, keep_text: bool) -> Ctx {
        let mut sim = match Sim::new(case, focus, keep_text) {
            Ok(s) => s,
            Err(p) => {
                let mut ctx = Ctx::new(focus, keep_text);
                ctx.fail("C16", "sut-panic", "builder", format!("builder panicked: {p}"));
                return ctx;
            }
        };
        sim.init();
        for rec in &case.ops {
            if sim.ctx.failed() || sim.aborted {
                break;
            }
            sim.exec(rec);
        }
        finish(&mut sim);
        sim.ctx
    }

    fn ops_len(&self, case: &Case) -> usize {
        case.ops.len()
    }

    fn retain_ops(&self, case: &Case, keep: &[bool]) -> Case {
        let mut c = case.clone();
        c.ops = case.ops.iter().zip(keep.iter()).filter(|(_, k)| **k).map(|(o, _)| o.clone()).collect();
        c
    }

    fn simplifications(&self, case: &Case) -> Vec<Case> {
        let mut v = Vec::new();
        if case.path == Path::Json {
            let mut c = case.clone();
            c.path = Path::Direct;
            v.push(c);
        }
        {
            let mut c = case.clone();
            c.init_modes = vec![Delivery::Eager];
            for o in c.ops.iter_mut() {
                o.modes = vec![Delivery::Eager];
            }
            v.push(c);
        }
        for i in 0..case.costs.len() {
            let mut c = case.clone();
            c.costs.remove(i);
            v.push(c);
        }
        for i in 0..case.weights.len() {
            if case.weights.len() > 1 {
                let mut c = case.clone();
                c.weights.remove(i);
                v.push(c);
            }
        }
        let d = &case.dataset;
        for keep in [1, 2, 3, d.n() / 2, d.n().saturating_sub(1)] {
            if keep >= 1 && keep < d.n() {
                let mut c = case.clone();
                c.dataset = d.truncated(keep);
                v.push(c);
            }
        }
        v
    }
}
