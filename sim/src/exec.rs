//! The simulator's own single-threaded executor: a poll loop. It has to be our own because the SUT
//! calls `futures::executor::block_on` internally (Clock::now), which panics when nested inside
//! another futures-rs executor. Simulated futures that return Pending always wake first, so the
//! SUT's inner block_on never parks forever.
//!
//! The loop runs inside the context of a per-thread tokio runtime whose clock is *paused*: code under
//! test that uses tokio timers (`tokio::time::timeout`, `sleep`) finds a reactor, and the only thing that
//! moves that clock is the simulator (`advance`, called by slow simulated deliveries). Simulated time is
//! therefore a pure function of the run, like everything else.

use std::cell::Cell;
use std::future::Future;
use std::pin::pin;
use std::task::{Context, Poll};

thread_local! {
    static RT: tokio::runtime::Runtime = tokio::runtime::Builder::new_current_thread()
        .enable_time()
        .start_paused(true)
        .build()
        .expect("harness: tokio runtime for the simulated clock");
    static ADVANCED_MS: Cell<u64> = const { Cell::new(0) };
}

pub fn block_on<F: Future>(f: F) -> F::Output {
    RT.with(|rt| {
        let _guard = rt.enter();
        let mut f = pin!(f);
        let waker = futures::task::noop_waker();
        let mut cx = Context::from_waker(&waker);
        let mut polls: u64 = 0;
        loop {
            match f.as_mut().poll(&mut cx) {
                Poll::Ready(v) => return v,
                Poll::Pending => {
                    // tasks the code under test may have spawned on the ambient runtime get a turn
                    rt.block_on(tokio::task::yield_now());
                    polls += 1;
                    if polls > 10_000_000 {
                        panic!("harness: future still pending after 10M polls");
                    }
                }
            }
        }
    })
}

/// Run synchronous SUT code (which may block on futures itself) inside the same runtime context.
pub fn enter<R>(f: impl FnOnce() -> R) -> R {
    RT.with(|rt| {
        let _guard = rt.enter();
        f()
    })
}

/// Move the simulated (tokio, paused) clock of this thread forward; timers that become due are woken.
pub fn advance(ms: u64) {
    RT.with(|rt| rt.block_on(tokio::time::advance(std::time::Duration::from_millis(ms))));
    ADVANCED_MS.with(|a| a.set(a.get() + ms));
}

/// Simulated milliseconds this thread's clock was advanced since the last call.
pub fn take_advanced_ms() -> u64 {
    ADVANCED_MS.with(|a| a.replace(0))
}
