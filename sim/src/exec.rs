//! The simulator's own single-threaded executor: a poll loop. It has to be our own because the SUT
//! calls `futures::executor::block_on` internally (Clock::now), which panics when nested inside
//! another futures-rs executor. Simulated futures that return Pending always wake first, so the
//! SUT's inner block_on never parks forever.

use std::future::Future;
use std::pin::pin;
use std::task::{Context, Poll};

pub fn block_on<F: Future>(f: F) -> F::Output {
    let mut f = pin!(f);
    let waker = futures::task::noop_waker();
    let mut cx = Context::from_waker(&waker);
    let mut polls: u64 = 0;
    loop {
        match f.as_mut().poll(&mut cx) {
            Poll::Ready(v) => return v,
            Poll::Pending => {
                polls += 1;
                if polls > 10_000_000 {
                    panic!("harness: future still pending after 10M polls");
                }
            }
        }
    }
}
