//! Batch runner: seeded search over many simulated runs on all cores, deterministic choice of the
//! failure to report, shrinking, replay files, fresh-process replay verification.

use crate::common::{catch, Tier, Violation};
use crate::engine::Engine;
use crate::rng::mix;
use serde::{Deserialize, Serialize};
use serde_json::{json, Value};
use std::collections::{BTreeMap, HashSet};
use std::sync::atomic::{AtomicU64, Ordering};
use std::sync::Mutex;
use std::time::Instant;

#[derive(Clone, Debug, Serialize, Deserialize)]
pub struct ReplayFile {
    pub property: String,
    pub engine: String,
    pub rule: String,
    pub sig: String,
    pub message: String,
    pub seed: u64,
    pub run_index: u64,
    pub run_seed: u64,
    pub tier: String,
    /// event-log hash of the (minimised) failing execution
    pub hash: String,
    pub ops: usize,
    pub case: Value,
}

pub struct Failure {
    pub run_index: u64,
    pub run_seed: u64,
    pub violation: Violation,
    pub case: Value,
    pub hash: u64,
    pub ops: usize,
    pub ops_before_shrink: usize,
    pub shrink_replays: u64,
    /// false: the violation was observed but replaying the recorded case does not show it again
    /// (the system under test behaved nondeterministically)
    pub reproducible: bool,
}

#[derive(Default)]
pub struct EngineReport {
    pub engine: String,
    pub runs: u64,
    pub nontrivial_distinct: u64,
    pub distinct_runs: u64,
    pub counters: BTreeMap<String, u64>,
    pub other_props: BTreeMap<String, u64>,
    pub interleavings: u64,
    pub states: u64,
    pub sim_ticks: u64,
    pub sim_span: i128,
    pub ops: u64,
    pub events: u64,
    pub samples: Vec<Value>,
    pub wall_s: f64,
    pub failure: Option<Failure>,
    /// violations that matched a `known` entry of known_findings.json (text of the entry)
    pub known_hits: BTreeMap<String, u64>,
    pub capped_by_wall_clock: bool,
}

pub struct Params<'a> {
    pub focus: &'a str,
    pub tier: Tier,
    pub seed: u64,
    pub runs: u64,
    pub jobs: usize,
    pub wall_cap_s: f64,
    /// (rule, sig-substring, text) of known findings for this property
    pub known: &'a [(String, String, String)],
}

struct WorkerAcc {
    nontrivial: HashSet<u64>,
    distinct: HashSet<u64>,
    ileave: HashSet<u64>,
    states: HashSet<u64>,
    counters: BTreeMap<&'static str, u64>,
    other: BTreeMap<String, u64>,
    sim_ticks: u64,
    sim_span: i128,
    ops: u64,
    events: u64,
    runs: u64,
    known_hits: BTreeMap<String, u64>,
}

fn matches_known(v: &Violation, known: &[(String, String, String)]) -> Option<String> {
    for (rule, sig, text) in known {
        if &v.rule == rule && (sig.is_empty() || v.sig.contains(sig.as_str())) {
            return Some(text.clone());
        }
    }
    None
}

/// Result of one worker process (engines whose SUT serialises all threads on the stdout lock —
/// Jura's tick println!s the book — are run in worker processes instead of worker threads).
#[derive(Serialize, Deserialize, Default)]
pub struct WorkerOut {
    pub runs: u64,
    pub sim_ticks: u64,
    pub sim_span: String,
    pub ops: u64,
    pub events: u64,
    pub distinct: Vec<u64>,
    pub nontrivial: Vec<u64>,
    pub ileave: Vec<u64>,
    pub states: Vec<u64>,
    pub counters: BTreeMap<String, u64>,
    pub other: BTreeMap<String, u64>,
    pub known_hits: BTreeMap<String, u64>,
    pub samples: Vec<(u64, Value)>,
    pub first_failure: Option<u64>,
    pub capped: bool,
}

fn read_stop(dir: &str, n: usize) -> u64 {
    let mut m = u64::MAX;
    for k in 0..n {
        if let Ok(s) = std::fs::read_to_string(format!("{dir}/stop.{k}")) {
            if let Ok(v) = s.trim().parse::<u64>() {
                m = m.min(v);
            }
        }
    }
    m
}

/// Body of `sim worker ...`: runs indices idx, idx+n, idx+2n, ... single-threaded.
pub fn worker_main<E: Engine>(e: &E, p: &Params, idx: usize, n: usize, dir: &str) {
    let t0 = Instant::now();
    let mut out = WorkerOut::default();
    let mut distinct = HashSet::new();
    let mut nontrivial = HashSet::new();
    let mut ileave = HashSet::new();
    let mut states = HashSet::new();
    let mut span: i128 = 0;
    let mut i = idx as u64;
    let mut iter = 0u64;
    let mut stop = u64::MAX;
    while i < p.runs {
        if iter % 8 == 0 {
            stop = stop.min(read_stop(dir, n));
            if t0.elapsed().as_secs_f64() > p.wall_cap_s {
                out.capped = true;
                let _ = std::fs::write(format!("{dir}/stop.{idx}"), format!("{}", i.min(stop)));
                break;
            }
        }
        if i > stop {
            break;
        }
        iter += 1;
        let run_seed = mix(p.seed, e.name(), i);
        let (case, ctx) = match catch(|| e.generate(run_seed, p.focus, p.tier, false)) {
            Ok(x) => x,
            Err(msg) => {
                crate::out!("HARNESS-ERROR engine={} run={} seed={}: {}", e.name(), i, run_seed, msg);
                std::process::exit(2);
            }
        };
        out.runs += 1;
        out.sim_ticks += ctx.sim_ticks;
        span += ctx.sim_span as i128;
        out.ops += ctx.ops;
        out.events += ctx.log.events;
        let h = ctx.log.hash();
        distinct.insert(h);
        if ctx.nontrivial {
            nontrivial.insert(h);
        }
        ileave.insert(ctx.ileave);
        states.extend(ctx.states.iter().copied());
        for (k, v) in &ctx.counters {
            *out.counters.entry(k.to_string()).or_insert(0) += v;
        }
        for (k, v) in &ctx.other {
            *out.other.entry(k.clone()).or_insert(0) += v;
        }
        if i < 3 {
            out.samples.push((i, e.sample(&case)));
        }
        if let Some(v) = &ctx.violation {
            if let Some(text) = matches_known(v, p.known) {
                *out.known_hits.entry(text).or_insert(0) += 1;
            } else {
                out.first_failure = Some(i);
                let _ = std::fs::write(format!("{dir}/stop.{idx}"), format!("{i}"));
                break;
            }
        }
        i += n as u64;
    }
    out.sim_span = span.to_string();
    out.distinct = distinct.into_iter().collect();
    out.nontrivial = nontrivial.into_iter().collect();
    out.ileave = ileave.into_iter().collect();
    out.states = states.into_iter().collect();
    std::fs::write(format!("{dir}/out.{idx}.json"), serde_json::to_vec(&out).unwrap()).expect("worker: write result");
}

/// Same contract as `run_engine`, with worker processes.
pub fn run_engine_procs<E: Engine>(e: &E, p: &Params) -> EngineReport {
    let t0 = Instant::now();
    let n = p.jobs.max(1);
    let dir = format!("{}/sim/target/tmp/w{}-{}", crate::verif_dir(), std::process::id(), e.name());
    let _ = std::fs::remove_dir_all(&dir);
    std::fs::create_dir_all(&dir).expect("create worker dir");
    let exe = std::env::current_exe().expect("current exe");
    let known_json = serde_json::to_string(&p.known).unwrap();
    let mut children = Vec::new();
    for k in 0..n {
        let c = std::process::Command::new(&exe)
            .args(["worker", e.name(), p.focus, p.tier.name()])
            .arg(p.seed.to_string())
            .arg(p.runs.to_string())
            .arg(k.to_string())
            .arg(n.to_string())
            .arg(p.wall_cap_s.to_string())
            .arg(&dir)
            .arg(&known_json)
            .stdout(std::process::Stdio::inherit())
            .spawn()
            .expect("spawn worker");
        children.push(c);
    }
    for mut c in children {
        let st = c.wait().expect("wait worker");
        if !st.success() {
            crate::out!("HARNESS-ERROR worker process of engine {} exited with {:?}", e.name(), st.code());
            std::process::exit(2);
        }
    }
    let mut rep = EngineReport { engine: e.name().to_string(), ..Default::default() };
    let mut distinct = HashSet::new();
    let mut nontrivial = HashSet::new();
    let mut ileave = HashSet::new();
    let mut states = HashSet::new();
    let mut samples: Vec<(u64, Value)> = Vec::new();
    let mut first_failure: Option<u64> = None;
    for k in 0..n {
        let bytes = std::fs::read(format!("{dir}/out.{k}.json")).expect("read worker result");
        let w: WorkerOut = serde_json::from_slice(&bytes).expect("parse worker result");
        rep.runs += w.runs;
        rep.sim_ticks += w.sim_ticks;
        rep.sim_span += w.sim_span.parse::<i128>().unwrap_or(0);
        rep.ops += w.ops;
        rep.events += w.events;
        distinct.extend(w.distinct);
        nontrivial.extend(w.nontrivial);
        ileave.extend(w.ileave);
        states.extend(w.states);
        for (k, v) in w.counters {
            *rep.counters.entry(k).or_insert(0) += v;
        }
        for (k, v) in w.other {
            *rep.other_props.entry(k).or_insert(0) += v;
        }
        for (k, v) in w.known_hits {
            *rep.known_hits.entry(k).or_insert(0) += v;
        }
        samples.extend(w.samples);
        rep.capped_by_wall_clock |= w.capped;
        if let Some(f) = w.first_failure {
            first_failure = Some(first_failure.map_or(f, |x| x.min(f)));
        }
    }
    let _ = std::fs::remove_dir_all(&dir);
    rep.nontrivial_distinct = nontrivial.len() as u64;
    rep.distinct_runs = distinct.len() as u64;
    rep.interleavings = ileave.len() as u64;
    rep.states = states.len() as u64;
    samples.sort_by_key(|x| x.0);
    rep.samples = samples.into_iter().map(|x| x.1).collect();
    if let Some(idx) = first_failure {
        // regenerate the failing run here (pure function of the seed), then shrink as usual
        let run_seed = mix(p.seed, e.name(), idx);
        let mut done = false;
        for _ in 0..30 {
            let (case, ctx) = e.generate(run_seed, p.focus, p.tier, false);
            if let Some(v) = ctx.violation.clone() {
                rep.failure = Some(finish_failure(e, p, idx, run_seed, case, v, ctx.ops as usize));
                done = true;
                break;
            }
        }
        if !done {
            crate::out!("HARNESS-ERROR engine={} run={} seed={}: a worker reported a violation that does not reproduce in 30 attempts", e.name(), idx, run_seed);
            std::process::exit(2);
        }
    }
    rep.wall_s = t0.elapsed().as_secs_f64();
    rep
}

fn finish_failure<E: Engine>(e: &E, p: &Params, idx: u64, run_seed: u64, case: E::Case, v: Violation, ops: usize) -> Failure {
    let (min_case, replays) = shrink(e, &case, &v, p.focus);
    let ctx = e.replay(&min_case, p.focus, false);
    let (viol, hash, final_case) = match ctx.violation.clone() {
        Some(v2) if v2.prop == v.prop && v2.rule == v.rule => (v2, ctx.log.hash(), min_case),
        _ => {
            // the recorded case must reproduce; if it does not, the system under test itself has
            // become nondeterministic (e.g. a change that iterates a std HashMap the simulator has
            // no seam for). Retry a few times, then report the violation as observed, flagged.
            let mut found = None;
            for _ in 0..30 {
                let c0 = e.replay(&case, p.focus, false);
                if let Some(v0) = c0.violation.clone() {
                    if v0.prop == v.prop {
                        found = Some((v0, c0.log.hash()));
                        break;
                    }
                }
            }
            match found {
                Some((v0, h0)) => (v0, h0, case),
                None => {
                    return Failure {
                        run_index: idx,
                        run_seed,
                        violation: v,
                        case: serde_json::to_value(&case).unwrap(),
                        hash: 0,
                        ops: e.ops_len(&case),
                        ops_before_shrink: ops,
                        shrink_replays: replays,
                        reproducible: false,
                    };
                }
            }
        }
    };
    Failure {
        reproducible: true,
        run_index: idx,
        run_seed,
        violation: viol,
        case: serde_json::to_value(&final_case).unwrap(),
        hash,
        ops: e.ops_len(&final_case),
        ops_before_shrink: ops,
        shrink_replays: replays,
    }
}

pub fn run_engine<E: Engine>(e: &E, p: &Params) -> EngineReport {
    if e.prefers_processes() && p.jobs > 1 {
        return run_engine_procs(e, p);
    }
    let t0 = Instant::now();
    let next = AtomicU64::new(0);
    let stop_after = AtomicU64::new(u64::MAX);
    let failures: Mutex<Vec<(u64, u64, E::Case, Violation, u64, usize)>> = Mutex::new(Vec::new());
    let samples: Mutex<Vec<(u64, Value)>> = Mutex::new(Vec::new());
    let capped = AtomicU64::new(0);

    let accs: Vec<WorkerAcc> = std::thread::scope(|scope| {
        let mut handles = Vec::new();
        for _ in 0..p.jobs.max(1) {
            handles.push(scope.spawn(|| {
                let mut acc = WorkerAcc {
                    nontrivial: HashSet::new(),
                    distinct: HashSet::new(),
                    ileave: HashSet::new(),
                    states: HashSet::new(),
                    counters: BTreeMap::new(),
                    other: BTreeMap::new(),
                    sim_ticks: 0,
                    sim_span: 0,
                    ops: 0,
                    events: 0,
                    runs: 0,
                    known_hits: BTreeMap::new(),
                };
                loop {
                    let i = next.fetch_add(1, Ordering::SeqCst);
                    if i >= p.runs || i > stop_after.load(Ordering::SeqCst) {
                        break;
                    }
                    if i % 64 == 0 && t0.elapsed().as_secs_f64() > p.wall_cap_s {
                        capped.store(1, Ordering::SeqCst);
                        // stop handing out new work; lower indices still complete
                        let _ = stop_after.fetch_min(i, Ordering::SeqCst);
                        break;
                    }
                    let run_seed = mix(p.seed, e.name(), i);
                    let r = catch(|| e.generate(run_seed, p.focus, p.tier, false));
                    let (case, ctx) = match r {
                        Ok(x) => x,
                        Err(msg) => {
                            // a panic that escaped the per-op guards is a harness fault
                            crate::out!("HARNESS-ERROR engine={} run={} seed={}: {}", e.name(), i, run_seed, msg);
                            std::process::exit(2);
                        }
                    };
                    acc.runs += 1;
                    acc.sim_ticks += ctx.sim_ticks;
                    acc.sim_span += ctx.sim_span as i128;
                    acc.ops += ctx.ops;
                    acc.events += ctx.log.events;
                    let h = ctx.log.hash();
                    acc.distinct.insert(h);
                    if ctx.nontrivial {
                        acc.nontrivial.insert(h);
                    }
                    acc.ileave.insert(ctx.ileave);
                    for s in &ctx.states {
                        acc.states.insert(*s);
                    }
                    for (k, v) in &ctx.counters {
                        *acc.counters.entry(k).or_insert(0) += v;
                    }
                    for (k, v) in &ctx.other {
                        *acc.other.entry(k.clone()).or_insert(0) += v;
                    }
                    if i < 3 {
                        samples.lock().unwrap().push((i, e.sample(&case)));
                    }
                    if let Some(v) = ctx.violation.clone() {
                        if let Some(text) = matches_known(&v, p.known) {
                            *acc.known_hits.entry(text).or_insert(0) += 1;
                        } else {
                            let _ = stop_after.fetch_min(i, Ordering::SeqCst);
                            failures.lock().unwrap().push((i, run_seed, case, v, h, ctx.ops as usize));
                        }
                    }
                }
                acc
            }));
        }
        handles.into_iter().map(|h| h.join().expect("worker thread")).collect()
    });

    let mut rep = EngineReport { engine: e.name().to_string(), ..Default::default() };
    let mut nontrivial = HashSet::new();
    let mut distinct = HashSet::new();
    let mut ileave = HashSet::new();
    let mut states = HashSet::new();
    for a in accs {
        rep.runs += a.runs;
        rep.sim_ticks += a.sim_ticks;
        rep.sim_span += a.sim_span;
        rep.ops += a.ops;
        rep.events += a.events;
        nontrivial.extend(a.nontrivial);
        distinct.extend(a.distinct);
        ileave.extend(a.ileave);
        states.extend(a.states);
        for (k, v) in a.counters {
            *rep.counters.entry(k.to_string()).or_insert(0) += v;
        }
        for (k, v) in a.other {
            *rep.other_props.entry(k).or_insert(0) += v;
        }
        for (k, v) in a.known_hits {
            *rep.known_hits.entry(k).or_insert(0) += v;
        }
    }
    rep.nontrivial_distinct = nontrivial.len() as u64;
    rep.distinct_runs = distinct.len() as u64;
    rep.interleavings = ileave.len() as u64;
    rep.states = states.len() as u64;
    rep.capped_by_wall_clock = capped.load(Ordering::SeqCst) != 0;
    let mut s = samples.into_inner().unwrap();
    s.sort_by_key(|x| x.0);
    rep.samples = s.into_iter().map(|x| x.1).collect();

    // deterministic choice: the failing run with the lowest index
    let mut f = failures.into_inner().unwrap();
    f.sort_by_key(|x| x.0);
    if let Some((idx, run_seed, case, v, _h, ops)) = f.into_iter().next() {
        rep.failure = Some(finish_failure(e, p, idx, run_seed, case, v, ops));
    }
    rep.wall_s = t0.elapsed().as_secs_f64();
    rep
}

/// ddmin over the op list, then engine-specific simplifications; a candidate is kept only if the
/// same rule of the same property fires.
pub fn shrink<E: Engine>(e: &E, case: &E::Case, v: &Violation, focus: &str) -> (E::Case, u64) {
    let t0 = Instant::now();
    let mut replays = 0u64;
    let budget_s = 25.0;
    let mut same = |c: &E::Case| -> bool {
        replays += 1;
        match catch(|| e.replay(c, focus, false)) {
            Ok(ctx) => ctx.violation.as_ref().map_or(false, |x| x.prop == v.prop && x.rule == v.rule),
            Err(_) => false,
        }
    };
    let mut cur = case.clone();
    if !same(&cur) {
        return (cur, replays);
    }
    loop {
        let mut progressed = false;
        // 1. ddmin on ops
        let mut chunk = (e.ops_len(&cur) / 2).max(1);
        loop {
            let n = e.ops_len(&cur);
            if n == 0 {
                break;
            }
            let mut start = 0;
            let mut removed_any = false;
            while start < e.ops_len(&cur) {
                if t0.elapsed().as_secs_f64() > budget_s {
                    return (cur, replays);
                }
                let n = e.ops_len(&cur);
                let end = (start + chunk).min(n);
                let keep: Vec<bool> = (0..n).map(|i| i < start || i >= end).collect();
                let cand = e.retain_ops(&cur, &keep);
                if same(&cand) {
                    cur = cand;
                    removed_any = true;
                    progressed = true;
                } else {
                    start = end;
                }
            }
            if chunk == 1 && !removed_any {
                break;
            }
            if chunk > 1 {
                chunk = (chunk / 2).max(1);
            } else if !removed_any {
                break;
            }
        }
        // 2. simplifications
        let mut again = true;
        while again {
            again = false;
            let cur_txt = serde_json::to_string(&cur).unwrap_or_default();
            for cand in e.simplifications(&cur) {
                if t0.elapsed().as_secs_f64() > budget_s {
                    return (cur, replays);
                }
                if serde_json::to_string(&cand).unwrap_or_default() == cur_txt {
                    continue;
                }
                if same(&cand) {
                    cur = cand;
                    again = true;
                    progressed = true;
                    break;
                }
            }
        }
        if !progressed {
            break;
        }
    }
    (cur, replays)
}

pub fn write_replay(dir: &str, prop: &str, engine: &str, seed: u64, tier: Tier, f: &Failure) -> String {
    let _ = std::fs::create_dir_all(dir);
    let path = format!("{dir}/{prop}-{engine}-{seed}-{}.json", f.run_index);
    let rf = ReplayFile {
        property: f.violation.prop.clone(),
        engine: engine.to_string(),
        rule: f.violation.rule.clone(),
        sig: f.violation.sig.clone(),
        message: f.violation.msg.clone(),
        seed,
        run_index: f.run_index,
        run_seed: f.run_seed,
        tier: tier.name().to_string(),
        hash: format!("{:016x}", f.hash),
        ops: f.ops,
        case: f.case.clone(),
    };
    std::fs::write(&path, serde_json::to_string_pretty(&rf).unwrap()).expect("write replay file");
    path
}

/// Replay `path` in a fresh process; it must fail with the same rule and event-log hash.
pub fn verify_replay_fresh_process(path: &str, f: &Failure) -> Result<(), String> {
    let exe = std::env::current_exe().map_err(|e| e.to_string())?;
    let out = std::process::Command::new(exe)
        .arg("replay")
        .arg(path)
        .output()
        .map_err(|e| e.to_string())?;
    let stdout = String::from_utf8_lossy(&out.stdout);
    let want = format!("rule={} hash={:016x}", f.violation.rule, f.hash);
    if out.status.code() == Some(1) && stdout.contains(&want) {
        Ok(())
    } else {
        Err(format!("fresh-process replay gave exit {:?}, wanted `{want}`; output: {}", out.status.code(), stdout))
    }
}

pub fn replay_file<E: Engine>(e: &E, rf: &ReplayFile, verbose: bool) -> (Option<Violation>, u64, Option<String>) {
    let case: E::Case = serde_json::from_value(rf.case.clone()).expect("replay file: case does not parse for this engine");
    let ctx = e.replay(&case, &rf.property, verbose);
    (ctx.violation.clone(), ctx.log.hash(), ctx.log.text)
}

pub fn report_json(r: &EngineReport) -> Value {
    json!({
        "engine": r.engine,
        "runs": r.runs,
        "distinct_runs_by_event_log_hash": r.distinct_runs,
        "distinct_nontrivial": r.nontrivial_distinct,
        "distinct_interleavings": r.interleavings,
        "distinct_abstract_states": r.states,
        "ops_executed": r.ops,
        "events_logged": r.events,
        "sim_ticks": r.sim_ticks,
        "sim_span_date_units": r.sim_span.to_string(),
        "wall_s": r.wall_s,
        "runs_per_hour": if r.wall_s > 0.0 { (r.runs as f64 / r.wall_s * 3600.0) as u64 } else { 0 },
        "counters": r.counters,
        "violations_of_other_properties_seen_and_ignored": r.other_props,
        "known_finding_hits": r.known_hits,
        "capped_by_wall_clock": r.capped_by_wall_clock,
    })
}
