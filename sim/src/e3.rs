//! Engine E3: a real `UistBroker<SimClient>` over the transport seam, against a real server. The
//! harness keeps an independent ledger fed only by what crossed the wire (trades the server
//! returned, quotes it delivered, orders that reached it) and by the events the broker returned, and
//! compares it with every public getter after every operation. Decides C04 C05 C06 C09 C10 C11 C12.

use crate::clock::Digest;
use crate::common::{catch, close, Ctx, Tier, X};
use crate::e1u_model::{OrderSpec, Typ};
use crate::engine::Engine;
use crate::exec::block_on;
use crate::rng::Rng;
use crate::server::{Path, UistServer};
use crate::simclient::{Delivery, Shared, SimClient, Wire};
use crate::world::{gen_dataset, DatasetSpec, WorldCfg, WorldStats};
use crate::{ev, rule};
use alator::broker::uist::{UistBroker, UistBrokerBuilder};
use alator::broker::{
    BrokerCashEvent, BrokerCost, BrokerEvent, BrokerOperations, BrokerState, BrokerStates, CashOperations, Portfolio, Quote, SendOrder, Update,
};
use rotala::exchange::uist_v1::{Order, OrderType, Trade, TradeType, VerifSnapshot};
use rotala::http::uist::AppState;
use serde::{Deserialize, Serialize};
use std::collections::{BTreeMap, HashMap};
use std::rc::Rc;

#[derive(Clone, Copy, Debug, Serialize, Deserialize)]
pub enum CostSpec {
    PerShare(X),
    Pct(X),
    Flat(X),
}

impl CostSpec {
    pub fn to_sut(self) -> BrokerCost {
        match self {
            CostSpec::PerShare(x) => BrokerCost::per_share(x.0),
            CostSpec::Pct(x) => BrokerCost::pct_of_value(x.0),
            CostSpec::Flat(x) => BrokerCost::flat(x.0),
        }
    }
}

#[derive(Clone, Debug, Serialize, Deserialize)]
pub enum BOp {
    Deposit { amt: X },
    Withdraw { amt: X },
    Send { order: OrderSpec },
    SendMany { orders: Vec<OrderSpec> },
    Liquidate { amt: X },
    Check,
    /// weights in the key order the map is realised in; `second`: another order of the same keys for
    /// the order-independence rule; `send`: forward the resulting orders
    Diff { weights: Vec<(String, X)>, second: Vec<usize>, send: bool },
    /// Another client of the same server (not the broker): 0 = init on the same dataset, 1 = tick its own
    /// backtest, 2 = insert an order into its own backtest, 3 = new_backtest. Nothing it does may reach the
    /// broker's backtest.
    Stranger { act: u8 },
}

impl BOp {
    fn kind(&self) -> u64 {
        match self {
            BOp::Deposit { .. } => 1,
            BOp::Withdraw { .. } => 2,
            BOp::Send { .. } => 3,
            BOp::SendMany { .. } => 4,
            BOp::Liquidate { .. } => 5,
            BOp::Check => 6,
            BOp::Diff { .. } => 7,
            BOp::Stranger { .. } => 8,
        }
    }
}

#[derive(Clone, Debug, Serialize, Deserialize)]
pub struct OpRec {
    pub op: BOp,
    /// seed of the positions permutation (hook H2) in force during this op
    pub perm: u64,
    /// delivery modes of the requests this op causes, used cyclically
    pub modes: Vec<Delivery>,
}

#[derive(Clone, Debug, Serialize, Deserialize)]
pub struct Case {
    pub path: Path,
    pub single: bool,
    pub dataset: DatasetSpec,
    pub costs: Vec<CostSpec>,
    pub ops: Vec<OpRec>,
}

pub struct E3;

/// Everything the broker reports about itself through public getters.
#[derive(Clone, Debug)]
pub struct Obs {
    pub cash: f64,
    pub holdings: BTreeMap<String, f64>,
    pub pending: BTreeMap<String, f64>,
    pub hwp: BTreeMap<String, f64>,
    pub failed: bool,
    pub total: f64,
    pub liq: f64,
    /// symbol -> (bid, ask, date)
    pub quotes: BTreeMap<String, (f64, f64, i64)>,
    pub pos_value: BTreeMap<String, Option<f64>>,
    pub cost_basis: BTreeMap<String, Option<f64>>,
    pub profit: BTreeMap<String, Option<f64>>,
    pub trades: Vec<Trade>,
}

pub fn to_btree(m: HashMap<String, f64>) -> BTreeMap<String, f64> {
    m.into_iter().collect()
}

pub fn observe(brkr: &UistBroker<SimClient>, symbols: &[String]) -> Obs {
    let holdings = to_btree(brkr.get_holdings());
    let mut syms: Vec<String> = symbols.to_vec();
    for k in holdings.keys() {
        if !syms.contains(k) {
            syms.push(k.clone());
        }
    }
    if !syms.iter().any(|s| s == "NOPE") {
        syms.push("NOPE".to_string());
    }
    let mut quotes = BTreeMap::new();
    let mut pos_value = BTreeMap::new();
    let mut cost_basis = BTreeMap::new();
    let mut profit = BTreeMap::new();
    for s in &syms {
        if let Some(q) = brkr.get_quote(s) {
            quotes.insert(s.clone(), (q.bid, q.ask, q.date));
        }
        pos_value.insert(s.clone(), brkr.get_position_value(s));
        cost_basis.insert(s.clone(), brkr.cost_basis(s));
        profit.insert(s.clone(), brkr.get_position_profit(s));
    }
    Obs {
        cash: brkr.get_cash_balance(),
        holdings,
        pending: to_btree(brkr.get_pending_orders()),
        hwp: to_btree(brkr.get_holdings_with_pending()),
        failed: matches!(brkr.get_broker_state(), BrokerState::Failed),
        total: brkr.get_total_value(),
        liq: brkr.get_liquidation_value(),
        quotes,
        pos_value,
        cost_basis,
        profit,
        trades: brkr.trades_between(&i64::MIN, &i64::MAX),
    }
}

/// The harness's own books, fed by the wire and by returned events only.
#[derive(Clone, Debug, Default)]
pub struct Ledger {
    pub cash: f64,
    pub holdings: BTreeMap<String, f64>,
    pub pending: BTreeMap<String, f64>,
    pub trades: Vec<Trade>,
    pub last_quotes: BTreeMap<String, (f64, f64, i64)>,
    pub deposits: f64,
    pub withdrawals: f64,
    pub whole_shares: bool,
    pub long_only: bool,
    /// sum of the absolute values of everything that ever moved cash (scale for float tolerance)
    pub gross: f64,
    /// per symbol: sum of the absolute quantities of every accepted order (scale for float tolerance)
    pub qty_gross: BTreeMap<String, f64>,
}

fn is_whole(x: f64) -> bool {
    x.fract() == 0.0
}

impl Ledger {
    pub fn new() -> Self {
        Ledger { whole_shares: true, long_only: true, ..Default::default() }
    }

    pub fn book_trade(&mut self, t: &Trade) {
        let sign = match t.typ {
            TradeType::Buy => 1.0,
            TradeType::Sell => -1.0,
        };
        match t.typ {
            TradeType::Buy => self.cash -= t.value,
            TradeType::Sell => self.cash += t.value,
        }
        self.gross += t.value.abs();
        let h = self.holdings.get(&t.symbol).copied().unwrap_or(0.0) + sign * t.quantity;
        if h == 0.0 {
            self.holdings.remove(&t.symbol);
        } else {
            self.holdings.insert(t.symbol.clone(), h);
        }
        if h < 0.0 {
            self.long_only = false;
        }
        let p = self.pending.get(&t.symbol).copied().unwrap_or(0.0) - sign * t.quantity;
        if p == 0.0 {
            self.pending.remove(&t.symbol);
        } else {
            self.pending.insert(t.symbol.clone(), p);
        }
        if !is_whole(t.quantity) {
            self.whole_shares = false;
        }
        self.trades.push(t.clone());
    }

    pub fn accept_order(&mut self, o: &Order) {
        let signed = match o.order_type {
            OrderType::MarketBuy | OrderType::LimitBuy | OrderType::StopBuy => o.shares,
            _ => -o.shares,
        };
        let p = self.pending.get(&o.symbol).copied().unwrap_or(0.0) + signed;
        self.pending.insert(o.symbol.clone(), p);
        *self.qty_gross.entry(o.symbol.clone()).or_insert(0.0) += o.shares.abs();
        if !is_whole(o.shares) {
            self.whole_shares = false;
        }
    }
}

pub fn costs_to_sut(c: &[CostSpec]) -> Vec<BrokerCost> {
    c.iter().map(|x| x.to_sut()).collect()
}

pub fn build_server(path: Path, single: bool, ds: &DatasetSpec) -> (UistServer, u64) {
    if single {
        let srv = UistServer::new(AppState::single(&ds.name, ds.build()), path);
        (srv, 0)
    } else {
        let mut m: HashMap<String, rotala::input::penelope::Penelope> = HashMap::new();
        m.insert(ds.name.clone(), ds.build());
        let srv = UistServer::new(AppState::create(&mut m), path);
        let id = srv.init(&ds.name).expect("harness: init on a known dataset");
        (srv, id)
    }
}

/// Build a HashMap whose iteration order over keys is exactly `order` (seam for N3 on the
/// harness-owned weights map): std's RandomState differs per map, so rebuilding resamples the order.
pub fn realise(order: &[(String, f64)]) -> HashMap<String, f64> {
    for _ in 0..5_000_000u32 {
        let m: HashMap<String, f64> = order.iter().cloned().collect();
        if m.len() != order.len() || m.keys().zip(order.iter()).all(|(k, o)| k == &o.0) {
            return m;
        }
    }
    panic!("harness: could not realise weights order {:?}", order);
}

fn fmt_map(m: &BTreeMap<String, f64>) -> String {
    m.iter().map(|(k, v)| format!("{k}:{v:?}")).collect::<Vec<_>>().join(",")
}

fn maps_close(a: &BTreeMap<String, f64>, b: &BTreeMap<String, f64>, exact: bool) -> bool {
    let keys: std::collections::BTreeSet<&String> = a.keys().chain(b.keys()).collect();
    for k in keys {
        match (a.get(k), b.get(k)) {
            (Some(x), Some(y)) => {
                if exact {
                    if x != y {
                        return false;
                    }
                } else if (x - y).abs() > 1e-6 * x.abs().max(y.abs()).max(1.0) {
                    return false;
                }
            }
            // a missing entry stands for 0.0 only within tolerance, never in the exact clause
            (Some(x), None) | (None, Some(x)) => {
                if exact || x.abs() > 1e-6 {
                    return false;
                }
            }
            (None, None) => {}
        }
    }
    true
}

pub struct Sim<'a> {
    pub ctx: Ctx,
    pub ds: &'a DatasetSpec,
    pub costs: Vec<BrokerCost>,
    pub cost_specs: Vec<CostSpec>,
    pub sh: Rc<Shared>,
    pub brkr: UistBroker<SimClient>,
    pub bt: u64,
    pub led: Ledger,
    pub wire_seen: usize,
    pub ticks: usize,
    pub json: bool,
    pub ever_failed: bool,
    pub rebased: bool,
    pub all_eager: bool,
    pub aborted: bool,
    /// signed quantity per symbol of orders the exchange has filled while the fill never reached the broker
    /// (injected lost response): the broker legitimately still counts them as pending
    pub lost_pending: BTreeMap<String, f64>,
    /// backtests another client of the same server created (op Stranger)
    pub strangers: Vec<u64>,
}

pub struct OpOutcome {
    /// injected insert_order failures during the op
    pub failed: usize,
    pub arrivals: Vec<Order>,
    pub tick_trades: Vec<Trade>,
    pub ticked: bool,
    pub last_has_next: Option<bool>,
    /// trades the exchange executed on a tick whose response (or whose following quote response) was lost
    pub lost_trades: Vec<Trade>,
    /// orders whose insert_order request was lost on the way (the broker was told Err)
    pub lost_orders: Vec<Order>,
}

impl<'a> Sim<'a> {
    pub fn new(case: &'a Case, focus: &str, keep_text: bool) -> Result<Self, String> {
        let ctx = Ctx::new(focus, keep_text);
        let (srv, bt) = build_server(case.path, case.single, &case.dataset);
        let budget = 1_000_000;
        let sh = Shared::new(srv, budget);
        let first_modes = case.ops.first().map(|o| o.modes.clone()).unwrap_or_else(|| vec![Delivery::Eager]);
        sh.set_modes(&first_modes);
        let costs = costs_to_sut(&case.costs);
        let client = SimClient::new(sh.clone());
        let c2 = costs.clone();
        let brkr = catch(move || block_on(async move { UistBrokerBuilder::new().with_client(client, bt).with_trade_costs(c2).build().await }))?;
        let mut sim = Sim {
            ctx,
            ds: &case.dataset,
            costs,
            cost_specs: case.costs.clone(),
            sh,
            brkr,
            bt,
            led: Ledger::new(),
            wire_seen: 0,
            lost_pending: BTreeMap::new(),
            strangers: Vec::new(),
            ticks: 0,
            json: case.path == Path::Json,
            ever_failed: false,
            rebased: false,
            all_eager: true,
            aborted: false,
        };
        sim.absorb_wire();
        Ok(sim)
    }

    /// Read the wire entries produced since the last call: book trades, merge quotes, collect the
    /// orders that reached the server.
    pub fn absorb_wire(&mut self) -> OpOutcome {
        let mut out = OpOutcome { failed: 0, arrivals: vec![], tick_trades: vec![], ticked: false, last_has_next: None, lost_trades: vec![], lost_orders: vec![] };
        let wire = self.sh.wire.borrow();
        let mut pending_tick: Option<Vec<Trade>> = None;
        for w in wire[self.wire_seen..].iter() {
            match w {
                Wire::Tick { trades, has_next, .. } => {
                    // a tick's trades are booked when its quote request has been answered or has failed
                    if let Some(ts) = pending_tick.take() {
                        out.lost_trades.extend(ts);
                    }
                    pending_tick = Some(trades.clone());
                    out.ticked = true;
                    out.last_has_next = Some(*has_next);
                    self.ticks += 1;
                    self.ctx.sim_ticks += 1;
                }
                Wire::TickLost { trades, has_next, .. } => {
                    // the server ticked, the broker saw an error: it can know nothing of these trades
                    out.lost_trades.extend(trades.iter().cloned());
                    out.failed += 1;
                    out.ticked = true;
                    out.last_has_next = Some(*has_next);
                    self.ticks += 1;
                    self.ctx.sim_ticks += 1;
                    self.ctx.bump("f10_tick_response_lost");
                    ev!(self.ctx, "fault: the server ticked ({} trades), the tick response was lost, the client returned Err", trades.len());
                }
                Wire::Fetch { quotes, .. } => {
                    for q in quotes {
                        self.led.last_quotes.insert(q.symbol.clone(), (q.bid, q.ask, q.date));
                    }
                    if let Some(ts) = pending_tick.take() {
                        for t in &ts {
                            self.led.book_trade(t);
                        }
                        out.tick_trades.extend(ts);
                    }
                }
                Wire::Insert { order, .. } => out.arrivals.push(order.clone()),
                Wire::InsertLost { order, .. } => {
                    out.failed += 1;
                    out.lost_orders.push(order.clone());
                    self.ctx.bump("f10_insert_order_request_lost");
                    ev!(self.ctx, "fault: insert_order failed at the transport (client returned Err)");
                }
                Wire::Failed { what } => {
                    out.failed += 1;
                    ev!(self.ctx, "fault: {what} failed at the transport (client returned Err)");
                    match *what {
                        "tick" => self.ctx.bump("f10_tick_request_lost"),
                        _ => {
                            // the quotes are lost, the tick's trades are not: they arrived with the tick
                            // response and must be booked (C04 / C05 "every trade the exchange has executed")
                            self.ctx.bump("f10_quote_response_lost");
                            if let Some(ts) = pending_tick.take() {
                                for t in &ts {
                                    self.led.book_trade(t);
                                }
                                out.tick_trades.extend(ts);
                            }
                        }
                    }
                }
                _ => {}
            }
        }
        if let Some(ts) = pending_tick.take() {
            out.lost_trades.extend(ts);
        }
        for t in &out.lost_trades {
            let signed = match t.typ {
                TradeType::Buy => t.quantity,
                TradeType::Sell => -t.quantity,
            };
            *self.lost_pending.entry(t.symbol.clone()).or_insert(0.0) += signed;
            self.ctx.bump("f10_trades_the_broker_could_not_learn_of");
        }
        drop(wire);
        self.wire_seen = self.sh.wire_len();
        out
    }

    /// C04 / C05 speak of the trades "the exchange has executed", the ledger is fed by what the tick
    /// responses delivered: the two must be the same list (the exchange's own trade log is the reference).
    pub fn executions_delivered(&mut self, s0: &VerifSnapshot, s1: &VerifSnapshot, out: &OpOutcome) {
        if s1.trade_log.len() < s0.trade_log.len() {
            return;
        }
        let executed = &s1.trade_log[s0.trade_log.len()..];
        let json = self.json;
        let same = |a: &Trade, b: &Trade| {
            a.symbol == b.symbol
                && a.date == b.date
                && std::mem::discriminant(&a.typ) == std::mem::discriminant(&b.typ)
                && if json { close(a.value, b.value, 1e-12) && close(a.quantity, b.quantity, 1e-12) } else { a.value == b.value && a.quantity == b.quantity }
        };
        // a lost response (injected) loses the whole tick's trades: they count as accounted for, narrowly
        let delivered: Vec<&Trade> = out.tick_trades.iter().chain(out.lost_trades.iter()).collect();
        let ok = executed.len() == delivered.len() && executed.iter().zip(delivered.iter()).all(|(a, b)| same(a, *b));
        if !executed.is_empty() && executed.windows(2).any(|w| same(&w[0], &w[1])) {
            self.ctx.bump("probe_equal_adjacent_executions_in_one_tick");
        }
        if !ok {
            let msg = format!(
                "the exchange executed {} trades for this backtest on this tick ([{}]) but the tick response delivered {} ([{}])",
                executed.len(), executed.iter().map(crate::e1u_model::fmt_trade).collect::<Vec<_>>().join(","),
                out.tick_trades.len(), out.tick_trades.iter().map(crate::e1u_model::fmt_trade).collect::<Vec<_>>().join(",")
            );
            self.ctx.fail("C04", "executions-delivered", "check", msg.clone());
            self.ctx.fail("C05", "executions-delivered", "check", msg);
        }
    }

    pub fn snapshot(&self) -> VerifSnapshot {
        self.sh
            .srv
            .with_state(|s| s.backtests.get(&self.bt).map(|b| b.exchange.verif_snapshot()))
            .unwrap_or(VerifSnapshot { book: vec![], buffer: vec![], next_id: 0, trade_log: vec![] })
    }

    pub fn server_clock(&self) -> Option<i64> {
        self.sh.srv.with_state(|s| s.backtests.get(&self.bt).map(|b| b.date))
    }

    pub fn observe(&self) -> Obs {
        observe(&self.brkr, &self.ds.symbols)
    }

    fn feq(&self, a: f64, b: f64) -> bool {
        if self.json {
            close(a, b, 1e-12)
        } else {
            a == b
        }
    }

    // --------------------------------------------------------------------------------------------
    // rules evaluated after every operation
    // --------------------------------------------------------------------------------------------

    /// True (and the run is ended, unjudged) when the broker reports non-finite money or quantities.
    pub fn non_finite(&mut self, o: &Obs) -> bool {
        if self.aborted {
            return true;
        }
        if !(o.cash.is_finite() && o.total.is_finite() && o.liq.is_finite() && o.holdings.values().all(|v| v.is_finite()) && o.pending.values().all(|v| v.is_finite())) {
            self.ctx.bump("skipped_out_of_domain_non_finite_values");
            self.aborted = true;
            return true;
        }
        false
    }

    pub fn generic_rules(&mut self, o: &Obs, what: &str) {
        // non-finite money or quantities (an order sized by a division by an exactly-zero net price,
        // an overflow): outside every property's domain; the run ends here, unjudged
        if self.non_finite(o) {
            return;
        }
        // C04 ------------------------------------------------------------------------------------
        // 1e-9 relative to the money that moved (sums of large terms can cancel to something tiny)
        let cash_scale = (self.led.gross + self.led.deposits.abs() + self.led.withdrawals.abs()).max(1.0);
        rule!(
            self.ctx, "C04", "cash-ledger", what, (o.cash - self.led.cash).abs() <= 1e-9 * cash_scale,
            "after {what}: cash balance {:?} but deposits - withdrawals -/+ executed trades = {:?} (deposits {:?}, withdrawals {:?}, {} trades)",
            o.cash, self.led.cash, self.led.deposits, self.led.withdrawals, self.led.trades.len()
        );
        if o.cash < 0.0 {
            self.ctx.bump("probe_negative_cash_state");
        }
        // C05 ------------------------------------------------------------------------------------
        if self.ctx.wants("C05") {
            let exact = self.led.whole_shares;
            rule!(
                self.ctx, "C05", "holdings", what, maps_close(&o.holdings, &self.led.holdings, exact),
                "after {what}: holdings {{{}}} but bought - sold over the exchange's executions = {{{}}}", fmt_map(&o.holdings), fmt_map(&self.led.holdings)
            );
            rule!(
                self.ctx, "C05", "zero-position-present", what, o.holdings.values().all(|v| *v != 0.0),
                "after {what}: holdings contain a zero position: {{{}}}", fmt_map(&o.holdings)
            );
            let same_log = o.trades.len() == self.led.trades.len()
                && o.trades.iter().zip(self.led.trades.iter()).all(|(a, b)| a.symbol == b.symbol && a.date == b.date && a.typ == b.typ && a.value == b.value && a.quantity == b.quantity);
            // a windowed read over the dataset's whole date range must return the same log (every execution is
            // dated by one of the dataset's dates)
            {
                let (lo, hi) = (self.ds.dates.iter().copied().min().unwrap_or(0), self.ds.dates.iter().copied().max().unwrap_or(0));
                let windowed = self.brkr.trades_between(&lo, &hi).len();
                rule!(
                    self.ctx, "C05", "trade-log-window", what, windowed == o.trades.len(),
                    "after {what}: trades_between({lo}, {hi}) - the dataset's first and last date - returns {windowed} trades, the whole log has {}", o.trades.len()
                );
            }
            rule!(
                self.ctx, "C05", "trade-log", what, same_log,
                "after {what}: broker log has {} trades, the exchange executed {} for it (or they differ in order/content)", o.trades.len(), self.led.trades.len()
            );
            rule!(
                self.ctx, "C05", "pending", what, maps_close(&o.pending, &self.led.pending, false),
                "after {what}: pending exposure {{{}}} but accepted - filled = {{{}}}", fmt_map(&o.pending), fmt_map(&self.led.pending)
            );
            if exact {
                rule!(
                    self.ctx, "C05", "pending-zero-entry", what, o.pending.len() == self.led.pending.len() || !maps_close(&o.pending, &self.led.pending, false),
                    "after {what}: pending exposure {{{}}} keeps entries that should be gone: expected {{{}}}", fmt_map(&o.pending), fmt_map(&self.led.pending)
                );
            }
            // "accepted but not yet filled orders" read where they live: the exchange's buffer and book of
            // this broker's backtest (nobody else trades on it, the broker never cancels)
            if self.led.trades.len() < 5000 {
                let snap = self.snapshot();
                let mut outstanding: BTreeMap<String, f64> = BTreeMap::new();
                for ord in snap.book.iter().chain(snap.buffer.iter()) {
                    let sign = if Typ::from_sut(ord.order_type).is_buy() { 1.0 } else { -1.0 };
                    *outstanding.entry(ord.symbol.clone()).or_insert(0.0) += sign * ord.shares;
                }
                // fills the broker could not learn of (injected lost responses) are still pending for it
                for (k, v) in &self.lost_pending {
                    *outstanding.entry(k.clone()).or_insert(0.0) += v;
                }
                outstanding.retain(|_, v| *v != 0.0);
                // the broker's pending is a running float sum: tolerance relative to everything ever accepted
                let keys: std::collections::BTreeSet<&String> = o.pending.keys().chain(outstanding.keys()).collect();
                let agree = keys.iter().all(|k| {
                    let (a, b) = (o.pending.get(*k).copied().unwrap_or(0.0), outstanding.get(*k).copied().unwrap_or(0.0));
                    (a - b).abs() <= 1e-6 + 1e-9 * self.led.qty_gross.get(*k).copied().unwrap_or(0.0)
                });
                rule!(
                    self.ctx, "C05", "pending-vs-outstanding", what, agree,
                    "after {what}: pending exposure {{{}}} but the orders of this broker still waiting on the exchange (buffer + book) add up to {{{}}}", fmt_map(&o.pending), fmt_map(&outstanding)
                );
            }
            let mut sum = o.holdings.clone();
            for (k, v) in &o.pending {
                *sum.entry(k.clone()).or_insert(0.0) += v;
            }
            rule!(
                self.ctx, "C05", "holdings-with-pending", what, maps_close(&o.hwp, &sum, false) && o.hwp.len() == sum.len(),
                "after {what}: holdings_with_pending {{{}}} is not holdings + pending {{{}}}", fmt_map(&o.hwp), fmt_map(&sum)
            );
        }
        // C09 absorbing ----------------------------------------------------------------------------
        if self.ever_failed {
            rule!(self.ctx, "C09", "failed-absorbing", what, o.failed, "after {what}: broker left the Failed state");
        }
        if o.failed {
            if !self.ever_failed {
                self.ctx.bump("probe_failed_episodes");
            }
            self.ever_failed = true;
        }
        // C11 ------------------------------------------------------------------------------------
        if self.ctx.wants("C11") {
            let clock = self.server_clock();
            for (s, q) in &o.quotes {
                let want = self.led.last_quotes.get(s);
                let ok = want.map_or(false, |w| self.feq(w.0, q.0) && self.feq(w.1, q.1) && w.2 == q.2);
                rule!(
                    self.ctx, "C11", "last-seen-quote", what, ok,
                    "after {what}: get_quote({s}) = {:?} but the last quote delivered for it is {:?}", q, want
                );
                if let Some(c) = clock {
                    rule!(self.ctx, "C11", "quote-from-the-future", what, q.2 <= c, "after {what}: get_quote({s}) is dated {} but the clock is {}", q.2, c);
                }
            }
            for s in self.led.last_quotes.keys() {
                rule!(self.ctx, "C11", "quote-forgotten", what, o.quotes.contains_key(s), "after {what}: broker has no quote for {s} although one was delivered");
            }
            let mut sum = o.cash;
            let mut n_pos = 0;
            // tolerance relative to the size of the summands, not of the (possibly cancelling) sum
            let mut mag = o.cash.abs().max(1.0);
            for (s, qty) in &o.holdings {
                let pv = o.pos_value.get(s).copied().flatten();
                match o.quotes.get(s) {
                    Some(q) => {
                        let want = q.0 * qty;
                        rule!(
                            self.ctx, "C11", "position-value", what, pv.map_or(false, |v| close(v, want, 1e-12)),
                            "after {what}: position value of {s} = {:?}, quantity {:?} x last bid {:?} = {:?}", pv, qty, q.0, want
                        );
                        sum += pv.unwrap_or(0.0);
                        mag += pv.unwrap_or(0.0).abs();
                        n_pos += 1;
                    }
                    None => {
                        rule!(self.ctx, "C11", "position-value", what, pv.is_none(), "after {what}: {s} has no quote but position value {:?}", pv);
                    }
                }
                // cost basis and profit over the trades the exchange executed for this broker
                let (cq, cv) = cost_basis_of(&self.led.trades, s);
                let cb = o.cost_basis.get(s).copied().flatten();
                if cq == 0.0 {
                    rule!(self.ctx, "C11", "cost-basis", what, cb.is_none(), "after {what}: {s} is flat by the log but cost basis is {:?}", cb);
                } else {
                    let want = cv / cq;
                    rule!(
                        self.ctx, "C11", "cost-basis", what, cb.map_or(false, |c| close(c, want, 1e-9)),
                        "after {what}: cost basis of {s} = {:?}, net paid {:?} / net quantity {:?} = {:?}", cb, cv, cq, want
                    );
                    if let (Some(v), Some(c)) = (pv, cb) {
                        let want_p = v - qty * c;
                        let got = o.profit.get(s).copied().flatten();
                        let scale = v.abs().max((qty * c).abs()).max(1.0);
                        rule!(
                            self.ctx, "C11", "position-profit", what, got.map_or(false, |g| (g - want_p).abs() <= 1e-9 * scale),
                            "after {what}: profit of {s} = {:?}, value {:?} - quantity {:?} x cost basis {:?} = {:?}", got, v, qty, c, want_p
                        );
                    }
                }
            }
            // symbols that are flat must report no cost basis
            for (s, cb) in &o.cost_basis {
                if !o.holdings.contains_key(s) {
                    let (cq, _) = cost_basis_of(&self.led.trades, s);
                    if cq == 0.0 {
                        rule!(self.ctx, "C11", "cost-basis", what, cb.is_none(), "after {what}: {s} is flat but cost basis is {:?}", cb);
                        if o.trades.iter().any(|t| &t.symbol == s) {
                            self.ctx.bump("probe_flat_again_after_trading");
                        }
                    }
                }
            }
            rule!(
                self.ctx, "C11", "total-value", what, (o.total - sum).abs() <= 1e-9 * mag,
                "after {what}: total value {:?} but cash {:?} + sum of {} position values = {:?}", o.total, o.cash, n_pos, sum
            );
            if o.holdings.values().all(|v| *v >= 0.0) {
                rule!(
                    self.ctx, "C11", "liquidation-le-total", what, o.liq <= o.total + 1e-9 * mag,
                    "after {what}: liquidation value {:?} exceeds total value {:?} for a long portfolio", o.liq, o.total
                );
                if self.costs.is_empty() {
                    rule!(
                        self.ctx, "C11", "liquidation-eq-total-without-costs", what, (o.liq - o.total).abs() <= 1e-9 * mag,
                        "after {what}: no trade costs but liquidation value {:?} != total value {:?}", o.liq, o.total
                    );
                }
            }
            if n_pos > 0 {
                self.ctx.nontrivial |= self.ctx.focus == "C11";
            }
        }
    }

    fn abstract_state(&mut self, o: &Obs) {
        let mut d = Digest::new();
        d.b(o.failed).b(o.cash < 0.0).u(o.holdings.len().min(4) as u64).u(o.pending.len().min(4) as u64);
        let n = self.ds.n();
        d.u(if self.ticks == 0 { 0 } else if self.ticks < n { 1 } else { 2 });
        let snap = self.snapshot();
        d.u(snap.book.len().min(4) as u64).u(snap.buffer.len().min(4) as u64);
        self.ctx.state(d.0);
    }
}

/// The cost-basis algorithm of the property over a trade list: (net quantity, net amount paid)
/// since the position was last flat.
pub fn cost_basis_of(trades: &[Trade], sym: &str) -> (f64, f64) {
    let mut q = 0.0;
    let mut v = 0.0;
    for t in trades.iter().filter(|t| t.symbol == sym) {
        match t.typ {
            TradeType::Buy => {
                q += t.quantity;
                v += t.value;
            }
            TradeType::Sell => {
                q -= t.quantity;
                v -= t.value;
            }
        }
        if q == 0.0 {
            v = 0.0;
        }
    }
    (q, v)
}

fn orders_equal(a: &Order, b: &Order, json: bool) -> bool {
    let f = |x: f64, y: f64| if json { close(x, y, 1e-12) } else { x == y };
    a.order_type == b.order_type
        && a.symbol == b.symbol
        && f(a.shares, b.shares)
        && match (a.price, b.price) {
            (None, None) => true,
            (Some(x), Some(y)) => f(x, y),
            _ => false,
        }
}

fn is_buy(t: OrderType) -> bool {
    matches!(t, OrderType::MarketBuy | OrderType::LimitBuy | OrderType::StopBuy)
}

/// The cost model as the properties state it (C12/C13): costs apply in list order, each to what the
/// previous ones left: per-share moves the price against the trader, percentage scales the budget,
/// flat is subtracted from the budget. Written out here so that the sizing oracle does not depend on
/// the library's own `trade_impact_total`.
pub fn impact_total(costs: &[CostSpec], budget: f64, price: f64, is_buy: bool) -> (f64, f64) {
    let mut b = budget;
    let mut p = price;
    for c in costs {
        match c {
            CostSpec::PerShare(v) => {
                if is_buy {
                    p += v.0;
                } else {
                    p -= v.0;
                }
            }
            CostSpec::Pct(v) => b *= 1.0 - v.0,
            CostSpec::Flat(v) => b -= v.0,
        }
    }
    (b, p)
}

/// C12: the orders the property prescribes, from the broker's own reported values.
pub fn expected_diff(o: &Obs, costs: &[CostSpec], weights: &[(String, f64)]) -> (Vec<(String, bool, f64)>, bool, bool) {
    let mut out = Vec::new();
    let mut zero_gap = false;
    let mut negative_budget = false;
    for (sym, w) in weights {
        let value = o.pos_value.get(sym).copied().flatten().unwrap_or(0.0);
        let gap = o.liq * w - value;
        if gap == 0.0 {
            zero_gap = true;
            continue;
        }
        let Some(q) = o.quotes.get(sym) else { continue };
        if gap > 0.0 {
            let (nb, np) = impact_total(costs, gap.abs(), q.1, true);
            if nb < 0.0 {
                negative_budget = true;
            }
            let shares = (nb / np).floor();
            if shares >= 1.0 {
                out.push((sym.clone(), true, shares));
            }
        } else {
            let (nb, np) = impact_total(costs, gap.abs(), q.0, false);
            if nb < 0.0 {
                negative_budget = true;
            }
            let shares = (nb / np).floor();
            if shares >= 1.0 {
                out.push((sym.clone(), false, shares));
            }
        }
    }
    (out, zero_gap, negative_budget)
}

impl<'a> Sim<'a> {
    // --------------------------------------------------------------------------------------------
    // one operation
    // --------------------------------------------------------------------------------------------

    pub fn exec(&mut self, rec: &OpRec) {
        self.ctx.ops += 1;
        self.ctx.ileave(0, rec.modes.len() as u64, rec.op.kind());
        self.sh.set_modes(&rec.modes);
        if rec.modes.iter().any(|m| *m != Delivery::Eager) {
            self.all_eager = false;
        }
        alator::verif::set_positions_seed(Some(rec.perm));
        self.ctx.bump("f9_positions_permutations_installed");
        let r = catch(|| crate::exec::enter(|| self.exec_inner(rec)));
        alator::verif::set_positions_seed(None);
        if let Err(p) = r {
            ev!(self.ctx, "PANIC {p}");
            // a panic is charged to the properties whose operation it interrupts (C06 states "never a
            // panic" for send_order; a check() that panics cannot reconcile, ...); for any other focus
            // property the run simply ends here
            let props: &[&str] = match &rec.op {
                BOp::Send { .. } | BOp::SendMany { .. } => &["C06", "C09"],
                BOp::Liquidate { .. } => &["C10"],
                BOp::Diff { .. } => &["C12", "C06"],
                BOp::Check => &["C04", "C05", "C09"],
                BOp::Deposit { .. } | BOp::Withdraw { .. } => &["C04"],
                BOp::Stranger { .. } => &[],
            };
            let sig = match &rec.op {
                BOp::Send { order } => order.typ.name().to_string(),
                _ => format!("op{}", rec.op.kind()),
            };
            for prop in props {
                self.ctx.fail(prop, "sut-panic", &sig, format!("SUT panicked during {:?}: {p}", rec.op));
            }
            self.ctx.bump("runs_ended_by_sut_panic");
            self.aborted = true;
        }
    }

    fn exec_inner(&mut self, rec: &OpRec) {
        let o0 = self.observe();
        let s0 = self.snapshot();
        match &rec.op {
            BOp::Deposit { amt } => {
                let e = self.brkr.deposit_cash(&amt.0);
                ev!(self.ctx, "deposit {:?} -> {:?}", amt.0, e);
                match e {
                    BrokerCashEvent::DepositSuccess(x) => {
                        self.led.cash += x;
                        self.led.deposits += x;
                        rule!(self.ctx, "C09", "failed-accepts", "deposit", !o0.failed, "deposit accepted in Failed state");
                        rule!(self.ctx, "C04", "deposit-amount", "deposit", x == amt.0, "deposit of {:?} reported DepositSuccess({:?})", amt.0, x);
                    }
                    BrokerCashEvent::OperationFailure(_) => {
                        self.ctx.bump("f11_refused_in_failed_state");
                        rule!(self.ctx, "C09", "ready-refuses", "deposit", o0.failed, "deposit refused with OperationFailure although the broker is Ready");
                    }
                    other => self.ctx.fail("C04", "deposit-event", "deposit", format!("deposit answered with {:?}", other)),
                }
                self.after_simple(&o0, &s0, "deposit", true);
            }
            BOp::Withdraw { amt } => {
                let e = self.brkr.withdraw_cash(&amt.0);
                ev!(self.ctx, "withdraw {:?} -> {:?}", amt.0, e);
                match e {
                    BrokerCashEvent::WithdrawSuccess(x) => {
                        self.led.cash -= x;
                        self.led.withdrawals += x;
                        rule!(self.ctx, "C09", "failed-accepts", "withdraw", !o0.failed, "withdrawal accepted in Failed state");
                        rule!(self.ctx, "C04", "withdraw-overdraft", "withdraw", amt.0 <= o0.cash, "withdrawal of {:?} succeeded with only {:?} in cash", amt.0, o0.cash);
                        rule!(self.ctx, "C04", "withdraw-amount", "withdraw", x == amt.0, "withdrawal of {:?} reported WithdrawSuccess({:?})", amt.0, x);
                    }
                    BrokerCashEvent::WithdrawFailure(_) => {
                        self.ctx.bump("f11_withdrawal_above_cash_refused");
                        rule!(self.ctx, "C04", "withdraw-refused", "withdraw", amt.0 > o0.cash, "withdrawal of {:?} refused although cash is {:?}", amt.0, o0.cash);
                    }
                    BrokerCashEvent::OperationFailure(_) => {
                        self.ctx.bump("f11_refused_in_failed_state");
                        rule!(self.ctx, "C09", "ready-refuses", "withdraw", o0.failed, "withdrawal refused with OperationFailure although the broker is Ready");
                    }
                    other => self.ctx.fail("C04", "withdraw-event", "withdraw", format!("withdraw answered with {:?}", other)),
                }
                self.after_simple(&o0, &s0, "withdraw", true);
            }
            BOp::Send { order } => {
                self.do_send(order, &o0, &s0);
                let o1 = self.observe();
                self.generic_rules(&o1, "send_order");
                self.abstract_state(&o1);
            }
            BOp::SendMany { orders } => {
                self.do_send_many(orders, &o0, &s0);
                let o1 = self.observe();
                self.generic_rules(&o1, "send_orders");
                self.abstract_state(&o1);
            }
            BOp::Liquidate { amt } => self.do_liquidate(amt.0, &o0, &s0),
            BOp::Check => self.do_check(&o0, &s0),
            BOp::Diff { weights, second, send } => self.do_diff(weights, second, *send, &o0, &s0),
            BOp::Stranger { act } => self.do_stranger(*act, &o0, &s0),
        }
    }

    /// Another client of the same server state acts on its own backtests between the broker's requests.
    fn do_stranger(&mut self, act: u8, o0: &Obs, s0: &VerifSnapshot) {
        let clock0 = self.server_clock();
        let name = self.ds.name.clone();
        let what = match act {
            0 => {
                let r = self.sh.srv.init(&name);
                if let Ok(id) = r {
                    self.strangers.push(id);
                }
                format!("init -> {:?}", r.map_err(|e| e.status))
            }
            3 => {
                let r = self.sh.srv.new_backtest(&name);
                if let Ok(id) = r {
                    self.strangers.push(id);
                }
                format!("new_backtest -> {:?}", r.map_err(|e| e.status))
            }
            1 => match self.strangers.last().copied() {
                Some(id) => format!("tick {id} -> {:?}", self.sh.srv.tick(id).map(|t| t.executed_trades.len()).map_err(|e| e.status)),
                None => "tick (no backtest yet)".to_string(),
            },
            _ => match self.strangers.last().copied() {
                Some(id) => {
                    let o = Order::market_buy(self.ds.symbols[0].clone(), 1.0);
                    format!("insert into {id} -> {:?}", self.sh.srv.insert(&o, id).map_err(|e| e.status))
                }
                None => "insert (no backtest yet)".to_string(),
            },
        };
        ev!(self.ctx, "stranger {what}");
        self.ctx.bump("f7_requests_of_another_client_between_the_brokers");
        let s1 = self.snapshot();
        let o1 = self.observe();
        let same = crate::e1u::snapshot_digest(s0) == crate::e1u::snapshot_digest(&s1) && clock0 == self.server_clock();
        if !same {
            let msg = format!(
                "another client's request ({what}) changed the broker's own backtest {}: book {} -> {}, buffer {} -> {}, executed trades {} -> {}, clock {:?} -> {:?}",
                self.bt, s0.book.len(), s1.book.len(), s0.buffer.len(), s1.buffer.len(), s0.trade_log.len(), s1.trade_log.len(), clock0, self.server_clock()
            );
            // trades executed (or orders admitted) behind the broker's back can never be counted by it
            self.ctx.fail("C04", "stranger-touched-backtest", "stranger", msg.clone());
            self.ctx.fail("C05", "stranger-touched-backtest", "stranger", msg);
        }
        let _ = o0;
        self.generic_rules(&o1, "stranger");
    }

    /// After an operation that must not touch holdings, pending or the exchange.
    fn after_simple(&mut self, o0: &Obs, s0: &VerifSnapshot, what: &str, _cash_may_move: bool) {
        let out = self.absorb_wire();
        let o1 = self.observe();
        let s1 = self.snapshot();
        if self.non_finite(&o1) {
            return;
        }
        // (orders arriving at the exchange during a cash operation would show up in the pending ledger)
        for q in &out.arrivals {
            self.led.accept_order(q);
        }
        let _ = (&s0, &s1);
        if o0.failed {
            rule!(
                self.ctx, "C09", "failed-inert", what, o1.cash == o0.cash && o1.holdings == o0.holdings && o1.pending == o0.pending,
                "{what} in Failed state changed cash {:?}->{:?}, holdings or pending", o0.cash, o1.cash
            );
            self.ctx.nontrivial |= self.ctx.focus == "C09";
        }
        self.generic_rules(&o1, what);
        self.abstract_state(&o1);
    }

    /// C06: one send_order call.
    fn do_send(&mut self, spec: &OrderSpec, o0: &Obs, s0: &VerifSnapshot) {
        let order = spec.to_sut();
        let sig = spec.typ.name();
        let quote = o0.quotes.get(&spec.symbol).copied();
        let dropped0 = self.sh.dropped_unpolled.get();
        let e = self.brkr.send_order(order.clone());
        let out = self.absorb_wire();
        let s1 = self.snapshot();
        let o1 = self.observe();
        if self.non_finite(&o1) {
            return;
        }
        let sent = matches!(e, BrokerEvent::OrderSentToExchange(_));
        ev!(self.ctx, "send {:?} -> {} arrivals={}", spec, if sent { "sent" } else { "refused" }, out.arrivals.len());
        let (ask, unquoted) = match quote {
            Some((_bid, ask, _)) => (ask, false),
            None if o0.failed => {
                // a Failed broker must refuse any order without effect, quoted or not (C09)
                self.ctx.bump("probe_unquoted_symbol_order_while_failed");
                (f64::NAN, true)
            }
            None => {
                // outside the property's domain (no last seen ask); the generator does not produce it
                self.ctx.bump("skipped_out_of_domain_unquoted_symbol");
                return;
            }
        };
        let _ = unquoted;
        let shares = spec.shares.0;
        let buy = spec.typ.is_buy();
        let held = o0.holdings.get(&spec.symbol).copied();
        let cond_ready = !o0.failed;
        let cond_nonzero = shares != 0.0;
        let cond_cash = !buy || o0.cash > shares * ask;
        let cond_hold = !(spec.typ == Typ::MarketSell && held.is_some()) || shares <= held.unwrap();
        let should = cond_ready && cond_nonzero && cond_cash && cond_hold;
        if buy && o0.cash == shares * ask {
            self.ctx.bump("probe_cash_exactly_equals_cost");
        }
        if !cond_nonzero {
            self.ctx.bump("f11_zero_quantity");
        }
        if !cond_ready {
            self.ctx.bump("f11_refused_in_failed_state");
        }
        if buy && !cond_cash {
            self.ctx.bump("f11_oversized_buy");
        }
        if !cond_hold {
            self.ctx.bump("f11_oversized_sell");
        }
        let why = format!(
            "ready={cond_ready} nonzero={cond_nonzero} affordable={cond_cash} (cash {:?} vs {:?} x ask {:?}) holdings-ok={cond_hold} (held {:?})",
            o0.cash, shares, ask, held
        );
        if out.failed > 0 {
            // the transport lost the request: the order cannot have been forwarded; it must not be
            // reported as sent and must be inert like any refusal (narrow relaxation of "always forwarded")
            rule!(self.ctx, "C06", "lost-request-reported-sent", sig, !sent, "the client returned an error for insert_order but send_order answered {:?}", e);
        } else {
            rule!(self.ctx, "C06", "valid-order-refused", sig, !(should && !sent), "order {:?} meets every condition but was answered {:?}: {why}", spec, e);
        }
        rule!(self.ctx, "C06", "invalid-order-forwarded", sig, !(sent && !should), "order {:?} was forwarded although it must be refused: {why}", spec);
        if !cond_ready {
            rule!(self.ctx, "C09", "failed-accepts", "send_order", !sent, "order accepted in Failed state");
        }
        if sent {
            self.led.accept_order(&order);
            self.ctx.bump("orders_forwarded");
            self.ctx.nontrivial |= self.ctx.focus == "C06" && !self.all_eager;
            let arrived_ok = out.arrivals.len() == 1 && orders_equal(&out.arrivals[0], &order, self.json);
            let mode_sig = if self.sh.dropped_unpolled.get() > dropped0 { "future-dropped-unpolled" } else { sig };
            rule!(
                self.ctx, "C06", "forwarded-exactly-once", mode_sig, arrived_ok,
                "send_order returned OrderSentToExchange for {:?} but {} order(s) reached the exchange by the time it returned{}: {:?}",
                spec, out.arrivals.len(),
                if self.sh.dropped_unpolled.get() > dropped0 { " (the client future was dropped without being polled)" } else { "" },
                out.arrivals
            );
            let grew = s1.buffer.len() == s0.buffer.len() + 1 && s1.buffer.last().map_or(false, |b| orders_equal(b, &order, self.json));
            rule!(
                self.ctx, "C06", "exchange-buffer", mode_sig, grew || !arrived_ok,
                "after a forwarded order the exchange's pending buffer went from {} to {} orders", s0.buffer.len(), s1.buffer.len()
            );
            rule!(self.ctx, "C04", "send-moves-cash", sig, o1.cash == o0.cash, "send_order moved cash {:?} -> {:?}", o0.cash, o1.cash);
            rule!(self.ctx, "C05", "send-moves-holdings", sig, o1.holdings == o0.holdings, "send_order changed holdings");
        } else {
            self.ctx.bump("orders_refused");
            let inert = o1.cash == o0.cash && o1.holdings == o0.holdings && o1.pending == o0.pending;
            rule!(
                self.ctx, "C06", "refusal-not-inert", sig, inert,
                "refused order {:?} changed broker state: cash {:?}->{:?} holdings {{{}}}->{{{}}} pending {{{}}}->{{{}}}",
                spec, o0.cash, o1.cash, fmt_map(&o0.holdings), fmt_map(&o1.holdings), fmt_map(&o0.pending), fmt_map(&o1.pending)
            );
            rule!(
                self.ctx, "C06", "refusal-reached-exchange", sig, out.arrivals.is_empty() && s1.buffer.len() == s0.buffer.len() && s1.book.len() == s0.book.len(),
                "refused order {:?} reached the exchange ({} arrivals)", spec, out.arrivals.len()
            );
            if o0.failed {
                self.ctx.nontrivial |= self.ctx.focus == "C09";
            }
        }
    }

    /// The property's gatekeeping predicate on the broker's own reported state.
    fn should_forward(&self, spec: &OrderSpec, o0: &Obs) -> Option<bool> {
        let (_bid, ask, _) = o0.quotes.get(&spec.symbol).copied()?;
        let shares = spec.shares.0;
        let held = o0.holdings.get(&spec.symbol).copied();
        Some(
            !o0.failed
                && shares != 0.0
                && (!spec.typ.is_buy() || o0.cash > shares * ask)
                && (!(spec.typ == Typ::MarketSell && held.is_some()) || shares <= held.unwrap()),
        )
    }

    /// C06 through the batch entry point: one send_orders call. Cash and holdings do not move while
    /// sending, so the predicate of every order is evaluated on the state before the call.
    fn do_send_many(&mut self, specs: &[OrderSpec], o0: &Obs, s0: &VerifSnapshot) {
        let orders: Vec<Order> = specs.iter().map(|s| s.to_sut()).collect();
        let dropped0 = self.sh.dropped_unpolled.get();
        let events = self.brkr.send_orders(&orders);
        let out = self.absorb_wire();
        let s1 = self.snapshot();
        let o1 = self.observe();
        if self.non_finite(&o1) {
            return;
        }
        ev!(
            self.ctx, "send_orders {:?} -> {:?} arrivals={}", specs,
            events.iter().map(|e| matches!(e, BrokerEvent::OrderSentToExchange(_))).collect::<Vec<_>>(), out.arrivals.len()
        );
        if specs.iter().any(|s| !o0.quotes.contains_key(&s.symbol)) {
            self.ctx.bump("skipped_out_of_domain_unquoted_symbol");
            return;
        }
        rule!(
            self.ctx, "C06", "event-per-order", "send_orders", events.len() == orders.len(),
            "send_orders was given {} orders and answered with {} events: {:?}", orders.len(), events.len(), specs
        );
        if events.len() != orders.len() {
            return;
        }
        let mut sent: Vec<&Order> = Vec::new();
        for ((spec, order), e) in specs.iter().zip(orders.iter()).zip(events.iter()) {
            let is_sent = matches!(e, BrokerEvent::OrderSentToExchange(_));
            let should = self.should_forward(spec, o0).unwrap_or(false);
            let sig = spec.typ.name();
            if out.failed == 0 {
                rule!(self.ctx, "C06", "valid-order-refused", sig, !(should && !is_sent), "send_orders: order {:?} meets every condition but was answered {:?}", spec, e);
            }
            rule!(self.ctx, "C06", "invalid-order-forwarded", sig, !(is_sent && !should), "send_orders: order {:?} was forwarded although it must be refused (cash {:?}, held {:?}, failed {})", spec, o0.cash, o0.holdings.get(&spec.symbol), o0.failed);
            if is_sent {
                sent.push(order);
                self.led.accept_order(order);
                self.ctx.bump("orders_forwarded");
            } else {
                self.ctx.bump("orders_refused");
            }
        }
        let mode_sig = if self.sh.dropped_unpolled.get() > dropped0 { "future-dropped-unpolled" } else { "send_orders" };
        let arrived_ok = out.arrivals.len() == sent.len() && out.arrivals.iter().zip(sent.iter()).all(|(a, b)| orders_equal(a, b, self.json));
        rule!(
            self.ctx, "C06", "forwarded-exactly-once", mode_sig, arrived_ok,
            "send_orders reported {} orders sent but {} reached the exchange (or they differ): sent {:?} arrived {:?}", sent.len(), out.arrivals.len(), sent, out.arrivals
        );
        rule!(
            self.ctx, "C06", "exchange-buffer", mode_sig, s1.buffer.len() == s0.buffer.len() + sent.len() || !arrived_ok,
            "after send_orders the exchange's pending buffer went from {} to {} orders, {} were forwarded", s0.buffer.len(), s1.buffer.len(), sent.len()
        );
        rule!(self.ctx, "C04", "send-moves-cash", "send_orders", o1.cash == o0.cash, "send_orders moved cash {:?} -> {:?}", o0.cash, o1.cash);
        rule!(self.ctx, "C05", "send-moves-holdings", "send_orders", o1.holdings == o0.holdings, "send_orders changed holdings");
        if sent.is_empty() {
            rule!(
                self.ctx, "C06", "refusal-not-inert", "send_orders", o1.cash == o0.cash && o1.holdings == o0.holdings && o1.pending == o0.pending && s1.buffer.len() == s0.buffer.len(),
                "send_orders refused everything but changed state"
            );
        } else {
            self.ctx.nontrivial |= self.ctx.focus == "C06" && !self.all_eager;
        }
        if specs.windows(2).any(|w| w[0].symbol == w[1].symbol && w[0].typ == w[1].typ && w[0].shares.0 == w[1].shares.0) {
            self.ctx.bump("probe_adjacent_lookalike_orders_in_batch");
        }
    }

    /// C10 for one liquidation request (explicit, or the automatic one inside check()).
    #[allow(clippy::too_many_arguments)]
    fn liquidation_rules(&mut self, what: &str, amount: f64, success: bool, queued: &[Order], lost: &[Order], o_at: &Obs, in_domain: bool) {
        if !in_domain {
            self.ctx.bump("skipped_out_of_domain_liquidation");
            return;
        }
        let sig = if o_at.quotes.values().any(|q| q.0.fract() != 0.0) { "non-integer-bid" } else { "integer-bid" };
        if success {
            self.ctx.bump("probe_liquidation_success");
            rule!(
                self.ctx, "C10", "only-sells", sig, queued.iter().all(|o| o.order_type == OrderType::MarketSell),
                "{what}: liquidation queued something other than market sells: {:?}", queued
            );
            // Orders whose request the transport lost (injected) never reached the exchange, through no fault of
            // the broker: "enough" is judged on what it tried to queue. "Nothing queued on failure" (below) stays
            // literal: it is about what IS on the exchange.
            if !lost.is_empty() {
                self.ctx.bump("probe_liquidation_judged_with_lost_insert_requests");
            }
            let attempted: Vec<Order> = queued.iter().chain(lost.iter()).cloned().collect();
            let queued = &attempted[..];
            let mut raised = 0.0;
            let mut remaining = amount;
            for q in queued {
                let bid = o_at.quotes.get(&q.symbol).map_or(0.0, |x| x.0);
                raised += q.shares * bid;
                let held = o_at.holdings.get(&q.symbol).copied().unwrap_or(0.0);
                let pos_value = held * bid;
                // a position worth the remaining amount to within 1e-9 may legitimately go either way
                let boundary = close(pos_value, remaining, 1e-9);
                if !boundary {
                    // the queued orders are read from the exchange; on the Json path their quantity crossed
                    // JSON text, which is not bit-exact for numbers that are not short decimals
                    let slack = if self.json { held.abs() * 1e-12 } else { 0.0 };
                    rule!(
                        self.ctx, "C10", "sell-exceeds-position", sig, q.shares <= held + slack,
                        "{what}: liquidation sells {:?} {} but only {:?} are held", q.shares, q.symbol, held
                    );
                }
                remaining -= q.shares * bid;
            }
            rule!(
                self.ctx, "C10", "raises-enough", sig, raised >= amount * (1.0 - 1e-9),
                "{what}: liquidation of {:?} reported success but the queued sells are worth {:?} at the last seen bids: {:?} (holdings {{{}}}, bids {:?})",
                amount, raised, queued.iter().map(|q| (q.symbol.clone(), q.shares)).collect::<Vec<_>>(), fmt_map(&o_at.holdings),
                o_at.quotes.iter().map(|(k, v)| (k.clone(), v.0)).collect::<Vec<_>>()
            );
            // One position, sold in full: the worth of the sale is ONE product, bid x quantity, with no
            // order-dependent sum behind it, so "worth at least the requested amount" is judged exactly
            // (the tolerance above exists for sums of several sales only).
            if queued.len() == 1 && o_at.holdings.len() == 1 {
                let q = &queued[0];
                if let (Some(held), Some(bid)) = (o_at.holdings.get(&q.symbol), o_at.quotes.get(&q.symbol)) {
                    let full = if self.json { close(q.shares, *held, 1e-12) } else { q.shares == *held };
                    if full {
                        self.ctx.bump("probe_liquidation_single_full_sale_judged_exactly");
                        rule!(
                            self.ctx, "C10", "raises-enough", "exact-single-position", bid.0 * *held >= amount,
                            "{what}: liquidation of {:?} reported success but the one position it sells in full ({:?} {} at bid {:?}) is worth {:?}",
                            amount, held, q.symbol, bid.0, bid.0 * *held
                        );
                    }
                }
            }
            if queued.len() > 1 {
                self.ctx.bump("probe_liquidation_several_positions");
            }
            self.ctx.nontrivial |= self.ctx.focus == "C10";
        } else {
            self.ctx.bump("probe_liquidation_failure");
            rule!(self.ctx, "C10", "failure-queues", sig, queued.is_empty(), "{what}: liquidation reported failure but queued {:?}", queued);
        }
    }

    fn do_liquidate(&mut self, amt: f64, o0: &Obs, s0: &VerifSnapshot) {
        let e = self.brkr.withdraw_cash_with_liquidation(&amt);
        let out = self.absorb_wire();
        let o1 = self.observe();
        let s1 = self.snapshot();
        if self.non_finite(&o1) {
            return;
        }
        ev!(self.ctx, "liquidate {:?} -> {:?} arrivals={}", amt, e, out.arrivals.len());
        let success = matches!(e, BrokerCashEvent::WithdrawSuccess(_));
        let above_cash = amt > o0.cash.max(0.0);
        let whole_long = o0.holdings.values().all(|v| *v > 0.0 && is_whole(*v));
        // a liquidation request sends insert_order requests only: the only fault it can meet is a lost one
        let in_domain = above_cash && !o0.failed && whole_long && out.failed == out.lost_orders.len();
        // C04: a liquidation request above the available cash never moves cash
        if above_cash {
            rule!(
                self.ctx, "C04", "liquidation-moves-cash", "liquidate", o1.cash == o0.cash,
                "withdraw-with-liquidation of {:?} (cash {:?}) moved cash to {:?} by itself ({:?})", amt, o0.cash, o1.cash, e
            );
            self.ctx.bump("f11_liquidation_above_cash");
        } else {
            // outside the property (its failure path debits): re-base the ledger
            self.led.cash = o1.cash;
            self.rebased = true;
        }
        // the queued orders: buffer growth on the exchange
        let queued: Vec<Order> = s1.buffer[s0.buffer.len().min(s1.buffer.len())..].to_vec();
        for q in &out.arrivals {
            self.led.accept_order(q);
        }
        if o0.failed {
            rule!(self.ctx, "C09", "failed-inert", "liquidate", out.arrivals.is_empty() && o1.pending == o0.pending, "liquidation in Failed state queued {} orders", out.arrivals.len());
        }
        self.liquidation_rules("withdraw_cash_with_liquidation", amt, success, &queued, &out.lost_orders, o0, in_domain);
        self.generic_rules(&o1, "liquidate");
        self.abstract_state(&o1);
    }

    fn do_check(&mut self, o0: &Obs, s0: &VerifSnapshot) {
        let whole_long_before = o0.holdings.values().all(|v| *v >= 0.0);
        block_on(self.brkr.check());
        let out = self.absorb_wire();
        let o1 = self.observe();
        let s1 = self.snapshot();
        if self.non_finite(&o1) {
            return;
        }
        self.executions_delivered(s0, &s1, &out);
        ev!(
            self.ctx, "check -> trades={} arrivals={} cash={:?} failed={} clock={:?} holdings={{{}}} pending={{{}}} liq={:?}",
            out.tick_trades.len(), out.arrivals.len(), o1.cash, o1.failed, self.server_clock(), fmt_map(&o1.holdings), fmt_map(&o1.pending), o1.liq
        );
        if !out.tick_trades.is_empty() {
            self.ctx.bump("probe_checks_with_fills");
            self.ctx.add("fills_reconciled", out.tick_trades.len() as u64);
            self.ctx.nontrivial |= matches!(self.ctx.focus.as_str(), "C04" | "C05");
            if o0.failed {
                self.ctx.bump("probe_fills_reconciled_while_failed");
            }
        }
        // internal sends (automatic liquidation): pending grows by what reached the exchange
        for q in &out.arrivals {
            self.led.accept_order(q);
        }
        // C09: entry condition
        self.liquidation_value_rule("C09", &o1, "after check");
        let long_after = o1.holdings.values().all(|v| *v >= 0.0);
        if !o0.failed && whole_long_before && long_after {
            let shortfall = o1.cash < 0.0;
            let need = -o1.cash + 1000.0;
            let uncoverable = need > o1.liq;
            // judged exactly: the broker evaluated `shortfall + 1000 > liquidation value` on the very
            // values read here (same expressions, same holdings order: the permutation seed of this op
            // is still installed), so there is no tolerance to allow for, even one ulp from the boundary
            let near = false;
            if close(need, o1.liq, 1e-9) {
                self.ctx.bump("probe_c09_within_1e-9_of_the_boundary");
                if need == o1.liq || f64::from_bits(need.to_bits() + 1) == o1.liq || f64::from_bits(o1.liq.to_bits() + 1) == need {
                    self.ctx.bump("probe_c09_within_one_ulp_of_the_boundary");
                }
            }
            {
                let want_failed = shortfall && uncoverable;
                rule!(
                    self.ctx, "C09", "failed-iff-uncoverable", if want_failed { "should-fail" } else { "should-stay-ready" }, o1.failed == want_failed,
                    "after check: cash {:?}, shortfall+1000 = {:?}, liquidation value {:?}: broker is {} but should be {}",
                    o1.cash, need, o1.liq, if o1.failed { "Failed" } else { "Ready" }, if want_failed { "Failed" } else { "Ready" }
                );
                if shortfall {
                    self.ctx.nontrivial |= self.ctx.focus == "C09";
                    if !o1.failed {
                        self.ctx.bump("probe_negative_cash_recoverable");
                        rule!(
                            self.ctx, "C09", "ready-with-sells-queued", "check", out.failed > 0 || out.arrivals.iter().any(|q| q.order_type == OrderType::MarketSell),
                            "after check: cash {:?} < 0 and broker Ready but no sell order was queued ({} arrivals)", o1.cash, out.arrivals.len()
                        );
                    }
                }
            }
            // C10: the automatic liquidation request
            if shortfall && !near && out.failed == 0 {
                let whole = o1.holdings.values().all(|v| *v > 0.0 && is_whole(*v));
                let queued: Vec<Order> = s1.buffer.clone();
                self.liquidation_rules("automatic rebalancing", need, !o1.failed, &queued, &[], &o1, whole);
            }
        }
        if o0.failed {
            rule!(self.ctx, "C09", "failed-inert", "check", out.arrivals.is_empty(), "check() in Failed state sent {} orders to the exchange", out.arrivals.len());
            // fills already in flight are still reconciled: judged on this tick's deltas only, so that
            // an earlier ledger divergence (C04/C05's subject) is not charged here
            let mut dcash = 0.0;
            let mut dhold: BTreeMap<String, f64> = BTreeMap::new();
            for t in &out.tick_trades {
                match t.typ {
                    TradeType::Buy => {
                        dcash -= t.value;
                        *dhold.entry(t.symbol.clone()).or_insert(0.0) += t.quantity;
                    }
                    TradeType::Sell => {
                        dcash += t.value;
                        *dhold.entry(t.symbol.clone()).or_insert(0.0) -= t.quantity;
                    }
                }
            }
            let scale = o0.cash.abs().max(o1.cash.abs()).max(1.0);
            rule!(
                self.ctx, "C09", "failed-fills-reconciled", "cash", ((o1.cash - o0.cash) - dcash).abs() <= 1e-9 * scale,
                "check() in Failed state: cash moved {:?} -> {:?} but the {} fills of this tick are worth {:?}", o0.cash, o1.cash, out.tick_trades.len(), dcash
            );
            let mut ok = true;
            for (s, d) in &dhold {
                let before = o0.holdings.get(s).copied().unwrap_or(0.0);
                let after = o1.holdings.get(s).copied().unwrap_or(0.0);
                if ((after - before) - d).abs() > 1e-6 * before.abs().max(after.abs()).max(1.0) {
                    ok = false;
                }
            }
            rule!(self.ctx, "C09", "failed-fills-reconciled", "holdings", ok, "check() in Failed state: holdings {{{}}} -> {{{}}} do not reflect this tick's fills {:?}", fmt_map(&o0.holdings), fmt_map(&o1.holdings), dhold);
            if !out.tick_trades.is_empty() {
                self.ctx.nontrivial |= self.ctx.focus == "C09";
            }
        }
        self.generic_rules(&o1, "check");
        self.abstract_state(&o1);
    }

    /// "Liquidation value" under the property's cost model, computed here from cash, holdings and the last
    /// seen bids: what selling every position would leave after costs (per-share fees move the price, not
    /// the proceeds). The broker's own figure, which decides Failed (C09) and sizes the orders (C12), must
    /// be this number.
    fn liquidation_value_rule(&mut self, prop: &'static str, o: &Obs, when: &str) {
        if !self.ctx.wants(prop) {
            return;
        }
        // from the harness's own books (cash and holdings fed by the wire and by returned events, quotes as
        // delivered), not from what the broker reports about itself
        let mut own = self.led.cash;
        let mut mag = self.led.gross + self.led.deposits.abs() + self.led.withdrawals.abs() + self.led.cash.abs();
        for (sym, qty) in &self.led.holdings {
            if *qty == 0.0 {
                // not a position: nothing to sell, no fee to pay
                continue;
            }
            if let Some(q) = self.led.last_quotes.get(sym) {
                let v = q.0 * *qty;
                let (net, _) = impact_total(&self.cost_specs, v, q.0, false);
                own += net;
                mag += v.abs() + net.abs();
            }
        }
        rule!(
            self.ctx, prop, "liquidation-value", "cost-model", (o.liq - own).abs() <= 1e-9 * mag.max(1.0),
            "{when}: the broker's liquidation value is {:?}, but cash {:?} + what the positions {{{}}} fetch at the last delivered bids after costs {:?} is {:?} (cash and positions from the exchange's executions and the cash operations)",
            o.liq, self.led.cash, fmt_map(&self.led.holdings), self.cost_specs, own
        );
    }

    fn do_diff(&mut self, weights: &[(String, X)], second: &[usize], send: bool, o0: &Obs, _s0: &VerifSnapshot) {
        let w: Vec<(String, f64)> = weights.iter().map(|(s, x)| (s.clone(), x.0)).collect();
        if o0.liq == 0.0 {
            self.ctx.bump("skipped_out_of_domain_zero_value_portfolio");
            return;
        }
        self.liquidation_value_rule("C12", o0, "before diff");
        let map1 = realise(&w);
        let got1 = self.brkr.diff_brkr_against_target_weights(&map1);
        let (exp, zero_gap, negative_budget) = expected_diff(o0, &self.cost_specs, &w);
        ev!(self.ctx, "diff {:?} -> {:?}", w, got1.iter().map(|o| (o.symbol.clone(), o.order_type, o.shares)).collect::<Vec<_>>());
        if got1.iter().any(|o| !o.shares.is_finite()) || exp.iter().any(|e| !e.2.is_finite()) {
            // a net price of exactly zero (per-share fee == quote) sizes an order by a division by
            // zero: outside the domain; nothing is sent and the run ends here, unjudged
            self.ctx.bump("skipped_out_of_domain_non_finite_values");
            self.aborted = true;
            return;
        }
        let sig = if zero_gap { "zero-gap" } else if negative_budget { "negative-budget" } else { "sizing" };
        if zero_gap {
            self.ctx.bump("probe_diff_zero_gap_symbol");
        }
        if negative_budget {
            self.ctx.bump("probe_diff_fee_larger_than_gap");
        }
        if w.iter().any(|(s, _)| !o0.quotes.contains_key(s)) {
            self.ctx.bump("probe_diff_unquoted_symbol");
        }
        let canon = |v: &[Order]| -> Vec<(String, bool, u64)> {
            let mut x: Vec<(String, bool, u64)> = v.iter().map(|o| (o.symbol.clone(), is_buy(o.order_type), o.shares.to_bits())).collect();
            x.sort();
            x
        };
        let mut expc: Vec<(String, bool, u64)> = exp.iter().map(|(s, b, n)| (s.clone(), *b, n.to_bits())).collect();
        expc.sort();
        let g1 = canon(&got1);
        rule!(
            self.ctx, "C12", "only-market-orders", sig, got1.iter().all(|o| matches!(o.order_type, OrderType::MarketBuy | OrderType::MarketSell) && o.price.is_none()),
            "diff produced non-market orders: {:?}", got1
        );
        rule!(self.ctx, "C12", "zero-sized-order", sig, got1.iter().all(|o| o.shares != 0.0 && o.shares > 0.0), "diff produced a zero-sized or negative order: {:?}", got1);
        {
            let mut syms: Vec<&String> = got1.iter().map(|o| &o.symbol).collect();
            syms.sort();
            let n = syms.len();
            syms.dedup();
            rule!(self.ctx, "C12", "one-order-per-symbol", sig, syms.len() == n, "diff produced several orders for one symbol: {:?}", got1);
        }
        // direction
        for o in &got1 {
            let value = o0.pos_value.get(&o.symbol).copied().flatten().unwrap_or(0.0);
            let wt = w.iter().find(|(s, _)| s == &o.symbol).map(|x| x.1);
            if let Some(wt) = wt {
                let gap = o0.liq * wt - value;
                let ok = if is_buy(o.order_type) { gap > 0.0 } else { gap < 0.0 };
                rule!(
                    self.ctx, "C12", "opposite-direction", sig, ok,
                    "diff produced {:?} {} x{:?} although the position is worth {:?} and weight x liquidation value is {:?}", o.order_type, o.symbol, o.shares, value, o0.liq * wt
                );
            } else {
                self.ctx.fail("C12", "order-for-unweighted-symbol", sig, format!("diff produced an order for {} which has no target weight", o.symbol));
            }
        }
        rule!(
            self.ctx, "C12", "expected-orders", sig, g1 == expc,
            "diff({:?}) returned {:?}, the property prescribes {:?} (liquidation value {:?}, costs {:?})",
            w, got1.iter().map(|o| (o.symbol.clone(), o.order_type, o.shares)).collect::<Vec<_>>(),
            exp, o0.liq, self.costs
        );
        {
            let mut seen_buy = false;
            let mut ok = true;
            for o in &got1 {
                if is_buy(o.order_type) {
                    seen_buy = true;
                } else if seen_buy {
                    ok = false;
                }
            }
            rule!(self.ctx, "C12", "sells-before-buys", sig, ok, "diff returned a sell after a buy: {:?}", got1.iter().map(|o| o.order_type).collect::<Vec<_>>());
        }
        // order independence: same state, another iteration order of the weights map
        if second.len() == w.len() && w.len() > 1 {
            let w2: Vec<(String, f64)> = second.iter().map(|i| w[*i % w.len()].clone()).collect();
            let distinct = {
                let mut k: Vec<&String> = w2.iter().map(|x| &x.0).collect();
                k.sort();
                k.dedup();
                k.len() == w.len()
            };
            if distinct && w2.iter().zip(w.iter()).any(|(a, b)| a.0 != b.0) {
                let map2 = realise(&w2);
                let got2 = self.brkr.diff_brkr_against_target_weights(&map2);
                ev!(self.ctx, "diff-second-order {:?} -> {:?}", w2.iter().map(|x| &x.0).collect::<Vec<_>>(), got2.iter().map(|o| (o.symbol.clone(), o.order_type, o.shares)).collect::<Vec<_>>());
                self.ctx.bump("f9_weights_map_second_order");
                rule!(
                    self.ctx, "C12", "order-dependence", sig, canon(&got2) == g1,
                    "diff depends on the iteration order of the weights map: keys {:?} give {:?}, keys {:?} give {:?}",
                    w.iter().map(|x| &x.0).collect::<Vec<_>>(), got1.iter().map(|o| (o.symbol.clone(), o.order_type, o.shares)).collect::<Vec<_>>(),
                    w2.iter().map(|x| &x.0).collect::<Vec<_>>(), got2.iter().map(|o| (o.symbol.clone(), o.order_type, o.shares)).collect::<Vec<_>>()
                );
            }
        }
        if !exp.is_empty() {
            self.ctx.nontrivial |= self.ctx.focus == "C12";
        }
        // diff is a query: nothing may have changed
        let o1 = self.observe();
        rule!(
            self.ctx, "C12", "diff-mutates", sig, o1.cash == o0.cash && o1.holdings == o0.holdings && o1.pending == o0.pending,
            "diff_brkr_against_target_weights changed broker state"
        );
        if send && !got1.is_empty() {
            // forward the result like the strategy does
            let events = self.brkr.send_orders(&got1);
            let out = self.absorb_wire();
            let mut n_sent = 0;
            for (e, o) in events.iter().zip(got1.iter()) {
                if matches!(e, BrokerEvent::OrderSentToExchange(_)) {
                    self.led.accept_order(o);
                    n_sent += 1;
                }
            }
            ev!(self.ctx, "diff-send {} orders -> {} sent, {} arrived", got1.len(), n_sent, out.arrivals.len());
            rule!(
                self.ctx, "C06", "forwarded-exactly-once", if self.sh.dropped_unpolled.get() > 0 { "future-dropped-unpolled" } else { "send_orders" }, out.arrivals.len() == n_sent,
                "send_orders reported {} orders sent but {} reached the exchange", n_sent, out.arrivals.len()
            );
        } else {
            let out = self.absorb_wire();
            rule!(self.ctx, "C12", "diff-mutates", sig, out.arrivals.is_empty(), "diff reached the exchange");
        }
        let o2 = self.observe();
        self.generic_rules(&o2, "diff");
        self.abstract_state(&o2);
    }
}

// ------------------------------------------------------------------------------------------------
// generation
// ------------------------------------------------------------------------------------------------

pub struct GenCfg {
    pub max_ops: usize,
    pub w: [u32; 7],
    /// probability that the next op belongs to another client of the same server
    pub stranger_p: f64,
    pub typ_w: [u32; 6],
    pub eager_only: bool,
    pub delay_p: f64,
    /// fault injection: share of mode slots that make an insert_order request fail
    pub fail_p: f64,
}

pub fn gen_costs(rng: &mut Rng) -> Vec<CostSpec> {
    let n = rng.weighted(&[25, 35, 25, 15]);
    let mut v = Vec::new();
    for _ in 0..n {
        v.push(match rng.usize(3) {
            // rarely a per-share fee larger than a cheap share (the net sell price goes negative)
            0 => CostSpec::PerShare(X(*rng.pick(&[0.0, 0.01, 0.1, 0.25, 0.5, 0.5, 0.1, 5.0, 500.0]))),
            1 => CostSpec::Pct(X(*rng.pick(&[0.0, 0.001, 0.01, 0.05]))),
            _ => CostSpec::Flat(X(*rng.pick(&[0.0, 1.0, 10.0, 100.0, 300.0]))),
        });
    }
    v
}

pub fn gen_modes(rng: &mut Rng, eager_only: bool, delay_p: f64) -> Vec<Delivery> {
    gen_modes_f(rng, eager_only, delay_p, 0.0)
}

/// `fail_p`: probability that a slot of the mode list is the insert_order fault.
pub fn gen_modes_f(rng: &mut Rng, eager_only: bool, delay_p: f64, fail_p: f64) -> Vec<Delivery> {
    if eager_only {
        return vec![Delivery::Eager];
    }
    let n = rng.range(1, 4) as usize;
    (0..n)
        .map(|_| {
            if rng.chance(fail_p) {
                // which request the slot meets decides which fault it is: a slot is honoured by the requests
                // named in simclient.rs and is a plain lazy delivery for every other request
                match rng.usize(4) {
                    0 | 1 => Delivery::InsertFails,
                    2 => Delivery::TickFails,
                    _ => Delivery::ResponseLost,
                }
            } else if rng.chance(delay_p) {
                match rng.usize(6) {
                    0 | 1 => Delivery::LazyPending(rng.range(1, 3) as u8),
                    2 | 3 => Delivery::EffectPending(rng.range(1, 3) as u8),
                    // slow in simulated time (the simulated clock jumps: 50 ms ... 10 min)
                    4 => Delivery::SlowResponse(*rng.pick(&[50u32, 1_500, 3_000, 31_000, 600_000])),
                    _ => Delivery::SlowRequest(*rng.pick(&[50u32, 1_500, 3_000, 31_000, 600_000])),
                }
            } else if rng.one_in(2) {
                Delivery::Lazy
            } else {
                Delivery::Eager
            }
        })
        .collect()
}

pub fn broker_world(tier: Tier) -> WorldCfg {
    WorldCfg {
        n_min: 2,
        n_max: if tier == Tier::Thorough { 200 } else { 25 },
        sym_min: 1,
        sym_max: if tier == Tier::Thorough { 6 } else { 4 },
        jura: false,
        flat: false,
        allow_crossed: true,
        allow_gaps: true,
        min_price_steps: 4,
    }
}

struct Gen {
    rng: Rng,
    cfg: GenCfg,
    issued: usize,
    next_tag: u64,
    queue: std::collections::VecDeque<BOp>,
    /// thorough only: one run in a hundred executes more than 65 536 trades for one broker
    flood: bool,
    srng: Rng,
}

impl Gen {
    fn new(seed: u64, tier: Tier, focus: &str) -> Self {
        let root = Rng::new(seed);
        let mut c = root.fork("cfg");
        let thorough = tier == Tier::Thorough;
        // op weights: deposit withdraw send sendmany liquidate check diff
        let mut w = [6u32, 5, 28, 4, 6, 36, 10];
        match focus {
            "C10" => {
                w[4] = 16;
                w[2] = 30;
            }
            "C12" => w[6] = 30,
            "C06" => w[2] = 45,
            "C09" => {
                w[2] = 35;
                w[5] = 45;
            }
            _ => {}
        }
        for x in w.iter_mut() {
            if c.one_in(8) {
                *x /= 4;
            }
        }
        w[5] = w[5].max(10);
        let mut typ_w = [30u32, 30, 8, 8, 8, 8];
        if c.one_in(3) {
            typ_w = [10; 6];
        }
        if c.one_in(4) {
            typ_w = [30, 30, 0, 0, 0, 0];
        }
        let cfg = GenCfg {
            max_ops: if crate::common::long_run(seed, tier) { if thorough { c.range(300, 1500) as usize } else { c.range(200, 600) as usize } } else if thorough { c.range(20, 400) as usize } else { c.range(8, 60) as usize },
            w,
            stranger_p: if root.fork("strangers").one_in(3) { 0.08 } else { 0.0 },
            typ_w,
            eager_only: c.one_in(4),
            delay_p: *c.pick(&[0.0, 0.2, 0.5]),
            fail_p: *c.pick(&[0.0, 0.0, 0.0, 0.05, 0.2]),
        };
        // one run in 10 000 (thorough: C04, C05, C11) / 40 000 (quick: C11 only, a handful of runs per check, each
        // some seconds on one of the sixteen workers) executes more than 65 536 trades for one broker
        let flood = (if thorough { matches!(focus, "C04" | "C05" | "C11") } else { focus == "C11" }) && c.one_in(std::env::var("VERIF_FLOOD_ONE_IN").ok().and_then(|s| s.parse().ok()).unwrap_or(if thorough { 10_000 } else { 40_000 }));
        Gen { rng: root.fork("ops"), cfg, issued: 0, next_tag: 1, queue: std::collections::VecDeque::new(), flood, srng: root.fork("stranger-ops") }
    }

    fn amount(&mut self) -> f64 {
        if self.rng.one_in(25) {
            // dust and giants: sums like 0.1 + 0.2, and a balance next to which one share is noise
            return *self.rng.pick(&[0.1, 0.2, 0.3, 1.0e12, 1.0e21]);
        }
        *self.rng.pick(&[1000.0, 10_000.0, 100_000.0, 100_000.0, 12_345.5, 250.0, 1_000_000.0])
    }

    fn order(&mut self, o: &Obs, ds: &DatasetSpec) -> Option<OrderSpec> {
        let quoted: Vec<&String> = o.quotes.keys().collect();
        if quoted.is_empty() {
            return None;
        }
        let held: Vec<&String> = o.holdings.keys().filter(|s| o.quotes.contains_key(*s)).collect();
        let typ = Typ::ALL[self.rng.weighted(&self.cfg.typ_w)];
        let mut symbol = if !typ.is_buy() && !held.is_empty() && !self.rng.one_in(5) { (*self.rng.pick(&held)).clone() } else { (*self.rng.pick(&quoted)).clone() };
        let (bid, ask, _) = o.quotes[&symbol];
        if o.failed && self.rng.one_in(10) {
            // only a Failed broker may be asked about a symbol it has never seen a quote for
            symbol = "NOPE".to_string();
        }
        let _ = ds;
        let shares = if typ.is_buy() {
            let k = if ask > 0.0 { (o.cash / ask).floor().max(0.0) } else { 0.0 };
            match self.rng.usize(14) {
                12 => *self.rng.pick(&[5.0e-17, 0.1, 0.2, 0.3]),
                13 => if k > 4.0e9 { 2.0e9 } else { 1.0 },
                0 => 0.0,
                1 => k,
                2 => k + 1.0,
                3 => (k - 1.0).max(0.0),
                4 => o.cash / ask,
                5 => (k / 2.0).floor(),
                6 => 1.0e9,
                7 => (k / 3.0).floor() + 0.5,
                _ => self.rng.range(1, 50) as f64,
            }
        } else {
            let h = o.holdings.get(&symbol).copied().unwrap_or(0.0);
            match self.rng.usize(11) {
                10 => *self.rng.pick(&[5.0e-17, 0.1, 0.2, 0.3]),
                0 => 0.0,
                1 | 2 => h,
                3 => h + 1.0,
                4 => (h - 1.0).max(0.0),
                5 => (h / 2.0).floor(),
                6 => h / 3.0,
                _ => self.rng.range(1, 20) as f64,
            }
        };
        let shares = if shares.is_finite() && shares >= 0.0 { shares } else { 1.0 };
        let price = if typ.is_market() {
            None
        } else {
            let base = if self.rng.one_in(2) { bid } else { ask };
            let p = base + *self.rng.pick(&[0.0, 0.25, -0.25, 1.0, -1.0, 5.0, -5.0]);
            Some(X(if p > 0.0 { p } else { base }))
        };
        self.next_tag += 1;
        // an order object that already carries an id (e.g. one handed back by a tick and re-used)
        let preset_id = if self.rng.one_in(20) { Some(self.rng.below(8)) } else { None };
        Some(OrderSpec { typ, symbol, shares: X(shares), price, preset_id })
    }

    fn weights(&mut self, o: &Obs, ds: &DatasetSpec) -> (Vec<(String, X)>, Vec<usize>) {
        let mut pool: Vec<String> = ds.symbols.clone();
        if self.rng.one_in(5) {
            pool.push("NOPE".to_string());
        }
        self.rng.shuffle(&mut pool);
        let n = self.rng.range(1, pool.len().min(5) as i64) as usize;
        let mut ws: Vec<(String, X)> = Vec::new();
        let mut left = 1.0f64;
        for s in pool.into_iter().take(n) {
            let mut w = *self.rng.pick(&[0.0, 0.0, 0.1, 0.2, 0.25, 0.3, 0.5, 1.0, 0.29, 0.58, 0.07]);
            if self.rng.one_in(5) && o.liq > 0.0 {
                // a weight that asks for exactly k shares: w x liquidation value lands on, or one ulp
                // beside, k x price (the floor's boundary)
                if let Some(q) = o.quotes.get(&s) {
                    let k = self.rng.range(1, 3) as f64;
                    let held = o.pos_value.get(&s).copied().flatten().unwrap_or(0.0);
                    let t = (q.1 * k + held) / o.liq;
                    if t.is_finite() && t > 0.0 && t <= 1.0 {
                        w = t;
                    }
                }
            }
            let w = if w > left { left } else { w };
            left -= w;
            let _ = o;
            ws.push((s, X(w)));
        }
        let mut second: Vec<usize> = (0..ws.len()).collect();
        self.rng.shuffle(&mut second);
        (ws, second)
    }

    fn next(&mut self, sim: &mut Sim) -> Option<OpRec> {
        if self.issued >= self.cfg.max_ops {
            return None;
        }
        self.issued += 1;
        let perm = self.rng.next_u64();
        // the generator looks at sums over the holdings map: fix its iteration order too (N3)
        alator::verif::set_positions_seed(Some(perm));
        let o = catch(|| sim.observe());
        alator::verif::set_positions_seed(None);
        let o = match o {
            Ok(o) => o,
            Err(p) => {
                // a public getter panicked: that is a violation (the getters are C11's subject), not a
                // harness fault
                sim.ctx.fail("C11", "sut-panic", "getter", format!("a Portfolio getter panicked: {p}"));
                sim.aborted = true;
                return None;
            }
        };
        let modes = gen_modes_f(&mut self.rng, self.cfg.eager_only, self.cfg.delay_p, self.cfg.fail_p);
        if self.flood && self.issued == 2 {
            self.flood = false;
            if let Some(sym) = o.quotes.keys().next().cloned() {
                sim.ctx.bump("probe_trade_flood_70k");
                self.queue.push_back(BOp::Deposit { amt: X(1.0e12) });
                for _ in 0..14 {
                    let orders: Vec<OrderSpec> = (0..5000).map(|_| OrderSpec { typ: Typ::MarketBuy, symbol: sym.clone(), shares: X(1.0), price: None, preset_id: None }).collect();
                    self.queue.push_back(BOp::SendMany { orders });
                    self.queue.push_back(BOp::Check);
                }
                self.queue.push_back(BOp::Check);
            }
        }
        let op = if let Some(q) = self.queue.pop_front() {
            q
        } else if self.cfg.stranger_p > 0.0 && self.issued > 1 && self.srng.chance(self.cfg.stranger_p) {
            // drawn from its own stream: runs without strangers stay what they were
            BOp::Stranger { act: *self.srng.pick(&[0u8, 0, 1, 1, 1, 2, 3]) }
        } else if self.issued == 1 && !self.rng.one_in(8) {
            BOp::Deposit { amt: X(self.amount()) }
        } else {
            match self.rng.weighted(&self.cfg.w) {
                0 => BOp::Deposit { amt: X(self.amount()) },
                1 => {
                    let amt = match self.rng.usize(8) {
                        6 => f64::from_bits(o.cash.max(0.0).to_bits() + 1), // the next double above the balance
                        7 => *self.rng.pick(&[0.3, 0.1 + 0.2, 0.1]),
                        0 => o.cash,
                        1 => o.cash + 1.0,
                        2 => o.cash / 2.0,
                        3 => 0.0,
                        4 => 100.0,
                        _ => (o.cash * self.rng.f64()).floor(),
                    };
                    BOp::Withdraw { amt: X(if amt.is_finite() && amt >= 0.0 { amt } else { 100.0 }) }
                }
                2 => match self.order(&o, sim.ds) {
                    Some(order) => BOp::Send { order },
                    None => BOp::Check,
                },
                3 => {
                    let n = self.rng.range(2, 4);
                    let mut orders: Vec<OrderSpec> = Vec::new();
                    for _ in 0..n {
                        // look-alike neighbours: same symbol, type and size (another price for limit/stop)
                        if !orders.is_empty() && self.rng.chance(0.4) {
                            let mut twin = orders.last().unwrap().clone();
                            if let Some(p) = twin.price {
                                if self.rng.one_in(2) {
                                    twin.price = Some(X(p.0 + 1.0));
                                }
                            }
                            orders.push(twin);
                        } else if let Some(x) = self.order(&o, sim.ds) {
                            orders.push(x);
                        }
                    }
                    if orders.is_empty() {
                        BOp::Check
                    } else {
                        BOp::SendMany { orders }
                    }
                }
                4 => {
                    let pos: f64 = o.total - o.cash;
                    let base = o.cash.max(0.0);
                    let one_pos: f64 = {
                        let vals: Vec<f64> = o.pos_value.values().filter_map(|v| *v).filter(|v| *v > 0.0).collect();
                        if vals.is_empty() { 0.0 } else { *self.rng.pick(&vals) }
                    };
                    let amt = match self.rng.usize(11) {
                        // exactly the value of one position / of all positions on top of the free cash:
                        // the whole-position and the partial-sale branch meet here
                        8 => base + one_pos,
                        9 => base + pos,
                        10 => one_pos.max(base + 1.0),
                        0 => base + pos * 0.1,
                        1 => base + pos * 0.5,
                        2 => base + pos * 0.9,
                        3 => base + pos,
                        4 => o.liq + 1.0,
                        5 => base + 1.0,
                        6 => (base / 2.0).floor(), // not above free cash: outside the property
                        _ => (base + pos * self.rng.f64()).floor() + 1.0,
                    };
                    BOp::Liquidate { amt: X(if amt.is_finite() && amt > 0.0 { amt } else { 1.0 }) }
                }
                5 => BOp::Check,
                _ => {
                    let (weights, second) = self.weights(&o, sim.ds);
                    BOp::Diff { weights, second, send: self.rng.chance(0.6) }
                }
            }
        };
        Some(OpRec { op, perm, modes })
    }
}

fn finish(sim: &mut Sim) {
    alator::verif::set_positions_seed(None);
    sim.ctx.add("requests", sim.sh.requests.get());
    sim.ctx.add("f6_lazy_effects", sim.sh.lazy_effects.get());
    sim.ctx.add("f6_pending_polls", sim.sh.pending_polls.get());
    sim.ctx.add("f6_simulated_ms_waited_for_slow_deliveries", sim.sh.simulated_ms.get());
    sim.ctx.add("f6_futures_dropped_unpolled", sim.sh.dropped_unpolled.get());
    let n = sim.ds.n();
    let i = sim.ticks.min(n - 1);
    sim.ctx.sim_span = sim.ds.dates[i].saturating_sub(sim.ds.dates[0]);
}

impl Engine for E3 {
    type Case = Case;

    fn name(&self) -> &'static str {
        "e3-broker"
    }

    fn generate(&self, seed: u64, focus: &str, tier: Tier, keep_text: bool) -> (Case, Ctx) {
        let root = Rng::new(seed);
        let mut w = root.fork("world");
        let mut st = WorldStats::default();
        let mut cfg = broker_world(tier);
        if crate::common::long_run(seed, tier) {
            cfg.n_min = 100;
            cfg.n_max = if tier == Tier::Thorough { 800 } else { 300 };
        }
        let dataset = gen_dataset(&mut w, "fake", &cfg, &mut st);
        let path = if w.one_in(4) { Path::Json } else { Path::Direct };
        let single = w.one_in(2);
        let costs = gen_costs(&mut w);
        let mut gen = Gen::new(seed, tier, focus);
        let mut dataset = dataset;
        let mut costs = costs;
        // C09 boundary family: a constructed world in which, after one buy at a jumped price, the
        // shortfall + 1000 lands exactly on, or a few ulps beside, the liquidation value
        let mut prefix: Vec<BOp> = Vec::new();
        if matches!(focus, "C09" | "ALL") && w.one_in(40) {
            let d = *w.pick(&[100_000.0f64, 10_000.0, 150.0, 12_345.5]);
            let ask1 = *w.pick(&[100.0f64, 10.0, 2.5, 99.75]);
            let n = ((d - 1.0) / ask1).floor().max(1.0);
            let ask2 = ask1 * *w.pick(&[2.0f64, 3.0, 4.0, 1.5]);
            let cash = d - ask2 * n;
            let need = cash * -1.0 + 1000.0;
            let mut b = (need - cash) / n;
            let k = w.range(-3, 3);
            for _ in 0..k.abs() {
                b = f64::from_bits(if k > 0 { b.to_bits() + 1 } else { b.to_bits() - 1 });
            }
            if cash < 0.0 && b.is_finite() && b > 0.0 {
                let sym = "ABC".to_string();
                dataset = DatasetSpec {
                    name: "fake".to_string(),
                    symbols: vec![sym.clone()],
                    dates: vec![100, 101, 102, 103, 104],
                    rows: vec![
                        vec![Some((X(ask1), X(ask1)))],
                        vec![Some((X(ask2), X(ask2)))],
                        vec![Some((X(b), X(b.max(ask2))))],
                        vec![Some((X(b), X(b.max(ask2))))],
                        vec![Some((X(b), X(b.max(ask2))))],
                    ],
                    by_symbol: false,
                    via_serde: false,
                };
                costs = Vec::new();
                prefix = vec![
                    BOp::Deposit { amt: X(d) },
                    BOp::Send { order: OrderSpec { typ: Typ::MarketBuy, symbol: sym, shares: X(n), price: None, preset_id: None } },
                    BOp::Check,
                    BOp::Check,
                    BOp::Check,
                ];
            }
        }
        // C10 dust family: a portfolio worth less than 1.0 (doubles are densest there) and a request a
        // few doubles above everything the positions can raise, with almost no free cash
        if matches!(focus, "C10" | "ALL") && prefix.is_empty() && w.one_in(60) {
            let (px, n) = *w.pick(&[(0.1f64, 3.0f64), (0.1, 1.0), (0.25, 1.0), (0.3, 1.0), (0.3, 3.0), (0.7, 1.0), (0.1, 7.0)]);
            let value = px * n;
            let mut amt = value;
            for _ in 0..w.range(1, 3) {
                amt = f64::from_bits(amt.to_bits() + 1);
            }
            let sym = "PNY".to_string();
            dataset = DatasetSpec {
                name: "fake".to_string(),
                symbols: vec![sym.clone()],
                dates: vec![100, 101, 102, 103, 104, 105],
                rows: (0..6).map(|_| vec![Some((X(px), X(px)))]).collect(),
                by_symbol: false,
                    via_serde: false,
            };
            costs = Vec::new();
            prefix = vec![
                BOp::Deposit { amt: X(value + 0.05) },
                BOp::Send { order: OrderSpec { typ: Typ::MarketBuy, symbol: sym, shares: X(n), price: None, preset_id: None } },
                BOp::Check,
                BOp::Check,
                BOp::Liquidate { amt: X(amt) },
                BOp::Check,
            ];
        }
        let mut case = Case { path, single, dataset, costs, ops: Vec::new() };
        // the builder's initial fetch uses the modes of the first op: fix them now
        let first_modes = gen_modes(&mut gen.rng, gen.cfg.eager_only, gen.cfg.delay_p);
        case.ops.push(OpRec { op: BOp::Check, perm: 0, modes: first_modes.clone() });
        let world = case.clone();
        let mut sim = match Sim::new(&world, focus, keep_text) {
            Ok(s) => s,
            Err(p) => {
                let mut ctx = Ctx::new(focus, keep_text);
                ctx.fail(if focus == "ALL" { "C11" } else { focus }, "sut-panic", "builder", format!("broker builder panicked: {p}"));
                return (case, ctx);
            }
        };
        case.ops.clear();
        sim.ctx.add("f1_quote_gaps_in_world", st.gaps);
        sim.ctx.add("crossed_quotes_in_world", st.crossed);
        sim.ctx.add("f2_price_jumps_in_world", st.jumps);
        if path == Path::Json {
            sim.ctx.bump("runs_json_path");
        }
        let mut first = true;
        if !prefix.is_empty() {
            sim.ctx.bump("runs_constructed_boundary_family");
        }
        let mut prefix = prefix.into_iter();
        while !sim.ctx.failed() && !sim.aborted {
            let Some(mut rec) = (match prefix.next() {
                Some(op) => Some(OpRec { op, perm: gen.rng.next_u64(), modes: vec![Delivery::Eager] }),
                None => gen.next(&mut sim),
            }) else { break };
            if first {
                rec.modes = first_modes.clone();
                first = false;
            }
            sim.exec(&rec);
            case.ops.push(rec);
        }
        finish(&mut sim);
        let ctx = sim.ctx;
        (case, ctx)
    }

    fn replay(&self, case: &Case, focus: &str, keep_text: bool) -> Ctx {
        let mut sim = match Sim::new(case, focus, keep_text) {
            Ok(s) => s,
            Err(p) => {
                let mut ctx = Ctx::new(focus, keep_text);
                ctx.fail(if focus == "ALL" { "C11" } else { focus }, "sut-panic", "builder", format!("broker builder panicked: {p}"));
                return ctx;
            }
        };
        for rec in &case.ops {
            if sim.ctx.failed() || sim.aborted {
                break;
            }
            sim.exec(rec);
        }
        finish(&mut sim);
        sim.ctx
    }

    fn ops_len(&self, case: &Case) -> usize {
        case.ops.len()
    }

    fn retain_ops(&self, case: &Case, keep: &[bool]) -> Case {
        let mut c = case.clone();
        c.ops = case.ops.iter().zip(keep.iter()).filter(|(_, k)| **k).map(|(o, _)| o.clone()).collect();
        c
    }

    fn simplifications(&self, case: &Case) -> Vec<Case> {
        let mut v = Vec::new();
        if case.path == Path::Json {
            let mut c = case.clone();
            c.path = Path::Direct;
            v.push(c);
        }
        if case.ops.iter().any(|o| o.modes.iter().any(|m| *m != Delivery::Eager)) {
            let mut c = case.clone();
            for o in c.ops.iter_mut() {
                o.modes = vec![Delivery::Eager];
            }
            v.push(c);
            // or at least no Pending polls
            let mut c = case.clone();
            for o in c.ops.iter_mut() {
                for m in o.modes.iter_mut() {
                    if matches!(m, Delivery::LazyPending(_) | Delivery::EffectPending(_)) {
                        *m = Delivery::Lazy;
                    }
                }
            }
            v.push(c);
        }
        for i in 0..case.costs.len() {
            let mut c = case.clone();
            c.costs.remove(i);
            v.push(c);
        }
        let d = &case.dataset;
        for keep in [2, 3, d.n() / 2, d.n().saturating_sub(1)] {
            if keep >= 2 && keep < d.n() {
                let mut c = case.clone();
                c.dataset = d.truncated(keep);
                v.push(c);
            }
        }
        v
    }
}
