//! The transport seam on the server side. One real `AppState` behind the same `web::Data<Mutex<_>>`
//! that actix hands to its handlers, reached by one of two paths:
//!   * Direct: lock and call the `AppState` method (what `TestClient` does);
//!   * Json:   build a request, run it through an in-memory actix service (real routing,
//!             extractors, handlers, `ResponseError` mapping, serde), decode the JSON body.
//! No sockets, no runtime, no threads: every request completes synchronously under `exec::block_on`.
//! The harness never holds the lock across a request.

use crate::exec::block_on;
use actix_web::test::{self, TestRequest};
use actix_web::{web, App};
use rotala::exchange::jura_v1 as jx;
use rotala::exchange::uist_v1 as ux;
use rotala::http::jura as jh;
use rotala::http::uist as uh;
use serde::de::DeserializeOwned;
use std::cell::Cell;

/// Uniform access to the server's state whatever std lock its own alias (`UistState` / `JuraState`) names:
/// the harness must not care whether a maintainer keeps a `Mutex` or moves to an `RwLock`.
pub trait StateLock<T> {
    fn make(v: T) -> Self;
    fn peek<R>(&self, f: impl FnOnce(&T) -> R) -> R;
    fn peek_mut<R>(&self, f: impl FnOnce(&mut T) -> R) -> R;
}

impl<T> StateLock<T> for std::sync::Mutex<T> {
    fn make(v: T) -> Self {
        std::sync::Mutex::new(v)
    }
    fn peek<R>(&self, f: impl FnOnce(&T) -> R) -> R {
        f(&self.lock().unwrap_or_else(|p| p.into_inner()))
    }
    fn peek_mut<R>(&self, f: impl FnOnce(&mut T) -> R) -> R {
        f(&mut self.lock().unwrap_or_else(|p| p.into_inner()))
    }
}

impl<T> StateLock<T> for std::sync::RwLock<T> {
    fn make(v: T) -> Self {
        std::sync::RwLock::new(v)
    }
    fn peek<R>(&self, f: impl FnOnce(&T) -> R) -> R {
        f(&self.read().unwrap_or_else(|p| p.into_inner()))
    }
    fn peek_mut<R>(&self, f: impl FnOnce(&mut T) -> R) -> R {
        f(&mut self.write().unwrap_or_else(|p| p.into_inner()))
    }
}

#[derive(Clone, Copy, Debug, PartialEq, Eq, serde::Serialize, serde::Deserialize)]
pub enum Path {
    Direct,
    Json,
}

/// A request that was not answered with a usable 200.
#[derive(Clone, Debug, PartialEq)]
pub struct Rej {
    /// HTTP status (Json path); 400 stands for `None` on the Direct path.
    pub status: u16,
    pub note: String,
}

impl Rej {
    fn none() -> Self {
        Rej { status: 400, note: "in-process call returned None".into() }
    }
}

type Svc = Box<dyn Fn(TestRequest) -> (u16, Vec<u8>)>;

/// Percent-encode a dataset name for use as one URL path segment (what an HTTP client has to do).
pub fn encode_segment(s: &str) -> String {
    let mut out = String::new();
    for b in s.bytes() {
        if b.is_ascii_alphanumeric() || matches!(b, b'-' | b'_' | b'.' | b'~') {
            out.push(b as char);
        } else {
            out.push_str(&format!("%{:02X}", b));
        }
    }
    out
}

fn decode<T: DeserializeOwned>(r: (u16, Vec<u8>)) -> Result<T, Rej> {
    if r.0 != 200 {
        return Err(Rej { status: r.0, note: String::from_utf8_lossy(&r.1).into_owned() });
    }
    serde_json::from_slice::<T>(&r.1).map_err(|e| Rej {
        status: 598,
        note: format!("200 with undecodable body: {e}: {}", String::from_utf8_lossy(&r.1)),
    })
}

macro_rules! make_svc {
    ($data:expr, $($svc:path),+) => {{
        let app = block_on(test::init_service(App::new().app_data($data.clone())$(.service($svc))+));
        let f: Svc = Box::new(move |req: TestRequest| {
            match block_on(test::try_call_service(&app, req.to_request())) {
                Ok(resp) => {
                    let status = resp.status().as_u16();
                    let body = block_on(test::read_body(resp));
                    (status, body.to_vec())
                }
                Err(e) => {
                    let resp = e.as_response_error().status_code();
                    (resp.as_u16(), Vec::new())
                }
            }
        });
        f
    }};
}

// ------------------------------------------------------------------------------------------------
// Uist
// ------------------------------------------------------------------------------------------------

pub type UistData = web::Data<uh::uistv1_server::UistState>;

pub struct UistServer {
    pub data: UistData,
    svc: Option<Svc>,
    pub path: Path,
    pub requests: Cell<u64>,
}

pub use uh::uistv1_server::{
    DeleteOrderRequest as UDeleteReq, FetchQuotesResponse as UFetchResp, InfoResponse as UInfoResp,
    InitResponse as UInitResp, InsertOrderRequest as UInsertReq, NowResponse as UNowResp,
    TickResponse as UTickResp,
};

impl UistServer {
    pub fn new(state: uh::AppState, path: Path) -> Self {
        let data: UistData = web::Data::new(<uh::uistv1_server::UistState as StateLock<uh::AppState>>::make(state));
        let svc = match path {
            Path::Direct => None,
            Path::Json => Some(make_svc!(
                data,
                uh::uistv1_server::info,
                uh::uistv1_server::init,
                uh::uistv1_server::fetch_quotes,
                uh::uistv1_server::tick,
                uh::uistv1_server::insert_order,
                uh::uistv1_server::delete_order,
                uh::uistv1_server::now
            )),
        };
        UistServer { data, svc, path, requests: Cell::new(0) }
    }

    fn count(&self) {
        self.requests.set(self.requests.get() + 1);
    }

    /// Read-only access to the state between requests.
    pub fn with_state<T>(&self, f: impl FnOnce(&uh::AppState) -> T) -> T {
        StateLock::peek(&**self.data, f)
    }

    pub fn with_state_mut<T>(&self, f: impl FnOnce(&mut uh::AppState) -> T) -> T {
        StateLock::peek_mut(&**self.data, f)
    }

    pub fn init(&self, dataset: &str) -> Result<u64, Rej> {
        self.count();
        match &self.svc {
            None => self.with_state_mut(|s| s.init(dataset.to_string())).ok_or_else(Rej::none),
            Some(svc) => {
                let r = svc(TestRequest::get().uri(&format!("/init/{}", encode_segment(dataset))));
                decode::<UInitResp>(r).map(|x| x.backtest_id)
            }
        }
    }

    /// `AppState::new_backtest` has no route; it is an in-process API only.
    pub fn new_backtest(&self, dataset: &str) -> Result<u64, Rej> {
        self.count();
        self.with_state_mut(|s| s.new_backtest(dataset)).ok_or_else(Rej::none)
    }

    pub fn tick(&self, bt: u64) -> Result<UTickResp, Rej> {
        self.count();
        match &self.svc {
            None => self
                .with_state_mut(|s| s.tick(bt))
                .map(|r| UTickResp { has_next: r.0, executed_trades: r.1, inserted_orders: r.2 })
                .ok_or_else(Rej::none),
            Some(svc) => decode(svc(TestRequest::get().uri(&format!("/backtest/{bt}/tick")))),
        }
    }

    pub fn insert(&self, order: &ux::Order, bt: u64) -> Result<(), Rej> {
        self.count();
        match &self.svc {
            None => self.with_state_mut(|s| s.insert_order(order.clone(), bt)).ok_or_else(Rej::none),
            Some(svc) => decode::<()>(svc(
                TestRequest::post()
                    .uri(&format!("/backtest/{bt}/insert_order"))
                    .set_json(UInsertReq { order: order.clone() }),
            )),
        }
    }

    /// Json path only: post a raw JSON body to insert_order.
    pub fn insert_raw(&self, body: &str, bt: u64) -> Result<(), Rej> {
        self.count();
        let svc = self.svc.as_ref().expect("insert_raw needs the Json path");
        decode::<()>(svc(
            TestRequest::post()
                .uri(&format!("/backtest/{bt}/insert_order"))
                .insert_header(("content-type", "application/json"))
                .set_payload(body.to_string()),
        ))
    }

    pub fn delete(&self, order_id: u64, bt: u64) -> Result<(), Rej> {
        self.count();
        match &self.svc {
            None => self.with_state_mut(|s| s.delete_order(order_id, bt)).ok_or_else(Rej::none),
            Some(svc) => decode::<()>(svc(
                TestRequest::post()
                    .uri(&format!("/backtest/{bt}/delete_order"))
                    .set_json(UDeleteReq { order_id }),
            )),
        }
    }

    pub fn fetch(&self, bt: u64) -> Result<UFetchResp, Rej> {
        self.count();
        match &self.svc {
            None => self
                .with_state(|s| s.fetch_quotes(bt).map(|q| UFetchResp { quotes: q.clone() }))
                .ok_or_else(Rej::none),
            Some(svc) => decode(svc(TestRequest::get().uri(&format!("/backtest/{bt}/fetch_quotes")))),
        }
    }

    pub fn info(&self, bt: u64) -> Result<UInfoResp, Rej> {
        self.count();
        match &self.svc {
            // what TestClient::info does
            None => self
                .with_state(|s| {
                    s.backtests.get(&bt).map(|b| UInfoResp {
                        version: "v1".to_string(),
                        dataset: b.dataset_name.clone(),
                    })
                })
                .ok_or_else(Rej::none),
            Some(svc) => decode(svc(TestRequest::get().uri(&format!("/backtest/{bt}/info")))),
        }
    }

    pub fn now(&self, bt: u64) -> Result<UNowResp, Rej> {
        self.count();
        match &self.svc {
            // what TestClient::now does (AppState itself has no `now`): harness-side stub
            None => self
                .with_state(|s| {
                    let b = s.backtests.get(&bt)?;
                    let d = s.datasets.get(&b.dataset_name)?;
                    Some(UNowResp { now: b.date, has_next: d.has_next(b.pos) })
                })
                .ok_or_else(Rej::none),
            Some(svc) => decode(svc(TestRequest::get().uri(&format!("/backtest/{bt}/now")))),
        }
    }

    /// Json path only: an arbitrary GET (unknown routes, malformed ids).
    pub fn raw_get(&self, uri: &str) -> (u16, Vec<u8>) {
        self.count();
        let svc = self.svc.as_ref().expect("raw_get needs the Json path");
        svc(TestRequest::get().uri(uri))
    }
}

// ------------------------------------------------------------------------------------------------
// Jura
// ------------------------------------------------------------------------------------------------

pub type JuraData = web::Data<jh::jurav1_server::JuraState>;

pub struct JuraServer {
    pub data: JuraData,
    svc: Option<Svc>,
    pub path: Path,
    pub requests: Cell<u64>,
}

pub use jh::jurav1_server::{
    DeleteOrderRequest as JDeleteReq, FetchQuotesResponse as JFetchResp, InfoResponse as JInfoResp,
    InitResponse as JInitResp, InsertOrderRequest as JInsertReq, TickResponse as JTickResp,
};

/// A Jura tick as seen by a caller: the HTTP response type has no field for the ids of triggered
/// children, the in-process call returns them as a fourth component.
pub struct JTick {
    pub has_next: bool,
    pub fills: Vec<jx::Fill>,
    pub orders: Vec<jx::Order>,
    pub triggered: Option<Vec<u64>>,
}

impl JuraServer {
    pub fn new(state: jh::AppState, path: Path) -> Self {
        let data: JuraData = web::Data::new(<jh::jurav1_server::JuraState as StateLock<jh::AppState>>::make(state));
        let svc = match path {
            Path::Direct => None,
            Path::Json => Some(make_svc!(
                data,
                jh::jurav1_server::info,
                jh::jurav1_server::init,
                jh::jurav1_server::fetch_quotes,
                jh::jurav1_server::tick,
                jh::jurav1_server::insert_order,
                jh::jurav1_server::delete_order
            )),
        };
        JuraServer { data, svc, path, requests: Cell::new(0) }
    }

    fn count(&self) {
        self.requests.set(self.requests.get() + 1);
    }

    pub fn with_state<T>(&self, f: impl FnOnce(&jh::AppState) -> T) -> T {
        StateLock::peek(&**self.data, f)
    }

    pub fn with_state_mut<T>(&self, f: impl FnOnce(&mut jh::AppState) -> T) -> T {
        StateLock::peek_mut(&**self.data, f)
    }

    pub fn init(&self, dataset: &str) -> Result<u64, Rej> {
        self.count();
        match &self.svc {
            None => self.with_state_mut(|s| s.init(dataset.to_string())).ok_or_else(Rej::none),
            Some(svc) => {
                let r = svc(TestRequest::get().uri(&format!("/init/{}", encode_segment(dataset))));
                decode::<JInitResp>(r).map(|x| x.backtest_id)
            }
        }
    }

    pub fn new_backtest(&self, dataset: &str) -> Result<u64, Rej> {
        self.count();
        self.with_state_mut(|s| s.new_backtest(dataset)).ok_or_else(Rej::none)
    }

    pub fn tick(&self, bt: u64) -> Result<JTick, Rej> {
        self.count();
        match &self.svc {
            None => self
                .with_state_mut(|s| s.tick(bt))
                .map(|r| JTick { has_next: r.0, fills: r.1, orders: r.2, triggered: Some(r.3) })
                .ok_or_else(Rej::none),
            Some(svc) => {
                let r: JTickResp = decode(svc(TestRequest::get().uri(&format!("/backtest/{bt}/tick"))))?;
                Ok(JTick {
                    has_next: r.has_next,
                    fills: r.executed_trades,
                    orders: r.inserted_orders,
                    triggered: None,
                })
            }
        }
    }

    pub fn insert(&self, order: &jx::Order, bt: u64) -> Result<(), Rej> {
        self.count();
        match &self.svc {
            None => self.with_state_mut(|s| s.insert_order(order.clone(), bt)).ok_or_else(Rej::none),
            Some(svc) => decode::<()>(svc(
                TestRequest::post()
                    .uri(&format!("/backtest/{bt}/insert_order"))
                    .set_json(JInsertReq { order: order.clone() }),
            )),
        }
    }

    pub fn insert_raw(&self, body: &str, bt: u64) -> Result<(), Rej> {
        self.count();
        let svc = self.svc.as_ref().expect("insert_raw needs the Json path");
        decode::<()>(svc(
            TestRequest::post()
                .uri(&format!("/backtest/{bt}/insert_order"))
                .insert_header(("content-type", "application/json"))
                .set_payload(body.to_string()),
        ))
    }

    pub fn delete(&self, asset: u64, order_id: u64, bt: u64) -> Result<(), Rej> {
        self.count();
        match &self.svc {
            None => self.with_state_mut(|s| s.delete_order(asset, order_id, bt)).ok_or_else(Rej::none),
            Some(svc) => decode::<()>(svc(
                TestRequest::post()
                    .uri(&format!("/backtest/{bt}/delete_order"))
                    .set_json(JDeleteReq { asset, order_id }),
            )),
        }
    }

    pub fn fetch(&self, bt: u64) -> Result<JFetchResp, Rej> {
        self.count();
        match &self.svc {
            None => self
                .with_state(|s| s.fetch_quotes(bt).map(|q| JFetchResp { quotes: q.clone() }))
                .ok_or_else(Rej::none),
            Some(svc) => decode(svc(TestRequest::get().uri(&format!("/backtest/{bt}/fetch_quotes")))),
        }
    }

    pub fn info(&self, bt: u64) -> Result<JInfoResp, Rej> {
        self.count();
        match &self.svc {
            None => self
                .with_state(|s| {
                    s.backtests.get(&bt).map(|b| JInfoResp {
                        version: "v1".to_string(),
                        dataset: b.dataset_name.clone(),
                    })
                })
                .ok_or_else(Rej::none),
            Some(svc) => decode(svc(TestRequest::get().uri(&format!("/backtest/{bt}/info")))),
        }
    }

    pub fn raw_get(&self, uri: &str) -> (u16, Vec<u8>) {
        self.count();
        let svc = self.svc.as_ref().expect("raw_get needs the Json path");
        svc(TestRequest::get().uri(uri))
    }
}
