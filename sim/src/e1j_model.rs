//! Jura exchange oracle: per-exchange tracker evaluating the step rules of C01, C03, C17 and C18 on
//! (pre-snapshot, quotes, tick output, post-snapshot).

use crate::common::{Ctx, X};
use crate::rule;
use rotala::exchange::jura_v1::{Fill, Order, VerifOrderKind, VerifOrderView, VerifSnapshot};
use rotala::input::penelope::PenelopeQuoteByDate;
use serde::{Deserialize, Serialize};
use std::collections::{BTreeMap, HashSet};

#[derive(Clone, Copy, Debug, PartialEq, Serialize, Deserialize)]
pub enum JKind {
    Ioc,
    Gtc,
    Trigger { trigger_px: X, is_market: bool, is_tp: bool },
}

#[derive(Clone, Debug, Serialize, Deserialize)]
pub struct JOrderSpec {
    pub asset: u64,
    pub is_buy: bool,
    pub limit_px: String,
    pub sz: String,
    pub kind: JKind,
    /// build through the public constructor (only possible for the eight constructor shapes)
    pub ctor: bool,
    pub reduce_only: bool,
    pub cloid: Option<String>,
}

impl JOrderSpec {
    pub fn tag(&self) -> u64 {
        self.sz.parse::<f64>().map(|x| x.floor() as u64).unwrap_or(0)
    }

    pub fn ctor_possible(&self) -> bool {
        if self.reduce_only || self.cloid.is_some() {
            return false;
        }
        match self.kind {
            JKind::Ioc | JKind::Gtc => true,
            JKind::Trigger { trigger_px, is_market, .. } => is_market && self.limit_px.parse::<f64>().map_or(false, |p| p.to_bits() == trigger_px.0.to_bits()),
        }
    }

    pub fn to_sut(&self) -> Order {
        if self.ctor && self.ctor_possible() {
            let (a, s, p) = (self.asset, self.sz.clone(), self.limit_px.clone());
            return match (self.kind, self.is_buy) {
                (JKind::Ioc, true) => Order::market_buy(a, &s, &p),
                (JKind::Ioc, false) => Order::market_sell(a, s, p),
                (JKind::Gtc, true) => Order::limit_buy(a, s, p),
                (JKind::Gtc, false) => Order::limit_sell(a, s, p),
                (JKind::Trigger { is_tp: false, .. }, true) => Order::stop_buy(a, s, p),
                (JKind::Trigger { is_tp: false, .. }, false) => Order::stop_sell(a, s, p),
                (JKind::Trigger { is_tp: true, .. }, true) => Order::takeprofit_buy(a, s, p),
                (JKind::Trigger { is_tp: true, .. }, false) => Order::takeprofit_sell(a, s, p),
            };
        }
        // the order's fields are private: serde is the public way in
        let order_type = match self.kind {
            JKind::Ioc => serde_json::json!({"Limit": {"tif": "Ioc"}}),
            JKind::Gtc => serde_json::json!({"Limit": {"tif": "Gtc"}}),
            JKind::Trigger { trigger_px, is_market, is_tp } => serde_json::json!({"Trigger": {
                "trigger_px": trigger_px.0, "is_market": is_market, "tpsl": if is_tp { "Tp" } else { "Sl" }}}),
        };
        let v = serde_json::json!({
            "asset": self.asset, "is_buy": self.is_buy, "limit_px": self.limit_px, "sz": self.sz,
            "reduce_only": self.reduce_only, "cloid": self.cloid, "order_type": order_type
        });
        serde_json::from_value(v).expect("harness: Jura order spec must deserialise")
    }

    pub fn name(&self) -> &'static str {
        match (self.kind, self.is_buy) {
            (JKind::Ioc, true) => "ioc-buy",
            (JKind::Ioc, false) => "ioc-sell",
            (JKind::Gtc, true) => "gtc-buy",
            (JKind::Gtc, false) => "gtc-sell",
            (JKind::Trigger { is_tp: false, .. }, true) => "sl-buy",
            (JKind::Trigger { is_tp: false, .. }, false) => "sl-sell",
            (JKind::Trigger { is_tp: true, .. }, true) => "tp-buy",
            (JKind::Trigger { is_tp: true, .. }, false) => "tp-sell",
        }
    }

    fn matches_view(&self, v: &VerifOrderView) -> bool {
        v.asset == self.asset
            && v.is_buy == self.is_buy
            && v.limit_px == self.limit_px
            && v.sz == self.sz
            && v.reduce_only == self.reduce_only
            && v.cloid == self.cloid
            && match (self.kind, &v.kind) {
                (JKind::Ioc, VerifOrderKind::LimitIoc) => true,
                (JKind::Gtc, VerifOrderKind::LimitGtc) => true,
                (JKind::Trigger { trigger_px, is_market, is_tp }, VerifOrderKind::Trigger { trigger_px: t, is_market: m, is_tp: p }) => {
                    trigger_px.0.to_bits() == t.to_bits() && is_market == *m && is_tp == *p
                }
                _ => false,
            }
    }
}

/// Equality of two order views; `json`: trigger_px crossed JSON text (not bit-exact), compare 1e-12.
pub fn view_eq(a: &VerifOrderView, b: &VerifOrderView, json: bool) -> bool {
    if a == b {
        return true;
    }
    if !json {
        return false;
    }
    a.asset == b.asset
        && a.is_buy == b.is_buy
        && a.limit_px == b.limit_px
        && a.sz == b.sz
        && a.reduce_only == b.reduce_only
        && a.cloid == b.cloid
        && match (&a.kind, &b.kind) {
            (VerifOrderKind::Trigger { trigger_px: x, is_market: m1, is_tp: t1 }, VerifOrderKind::Trigger { trigger_px: y, is_market: m2, is_tp: t2 }) => {
                m1 == m2 && t1 == t2 && crate::common::close(*x, *y, 1e-12)
            }
            (x, y) => x == y,
        }
}

pub fn view_name(v: &VerifOrderView) -> &'static str {
    match (&v.kind, v.is_buy) {
        (VerifOrderKind::LimitIoc, true) => "ioc-buy",
        (VerifOrderKind::LimitIoc, false) => "ioc-sell",
        (VerifOrderKind::LimitGtc, true) => "gtc-buy",
        (VerifOrderKind::LimitGtc, false) => "gtc-sell",
        (VerifOrderKind::LimitAlo, _) => "alo",
        (VerifOrderKind::Trigger { is_tp: false, .. }, true) => "sl-buy",
        (VerifOrderKind::Trigger { is_tp: false, .. }, false) => "sl-sell",
        (VerifOrderKind::Trigger { is_tp: true, .. }, true) => "tp-buy",
        (VerifOrderKind::Trigger { is_tp: true, .. }, false) => "tp-sell",
    }
}

pub fn fmt_view(v: &VerifOrderView) -> String {
    format!("{{{} asset={} px={} sz={} kind={:?}}}", view_name(v), v.asset, v.limit_px, v.sz, v.kind)
}

pub fn fmt_fill(f: &Fill) -> String {
    format!("{{oid={} coin={} side={} px={} sz={} time={}}}", f.oid, f.coin, f.side, f.px, f.sz, f.time)
}

#[derive(Clone, Copy, Debug, PartialEq, Eq)]
pub enum St {
    Buffered,
    Resting,
    Filled,
    Cancelled,
    /// IOC whose single attempt failed: never fills again (may or may not still sit in the book)
    Dead,
    /// trigger that fired and was replaced by its child
    Fired,
}

#[derive(Clone, Debug)]
pub struct Rec {
    pub view: VerifOrderView,
    pub tag: u64,
    pub status: St,
    pub id: Option<u64>,
    pub submit_clock: Option<i64>,
    pub attempted: bool,
    pub is_child: bool,
    pub waited_gap_ticks: u32,
}

#[derive(Default)]
pub struct JTracker {
    pub recs: Vec<Rec>,
    /// submitted (non-child) orders by tag
    /// submitted orders by size tag (sizes need not be unique)
    pub by_tag: BTreeMap<u64, Vec<usize>>,
    pub by_id: BTreeMap<u64, usize>,
    pub buffered: Vec<usize>,
    pub max_id: Option<u64>,
    pub ticks: u64,
    pub json: bool,
}

enum Exp {
    Nothing,
    Fill(Fill),
    Drop,
    Fire,
}

fn tag_of(sz: &str) -> u64 {
    sz.parse::<f64>().map(|x| x.floor() as u64).unwrap_or(u64::MAX)
}

impl JTracker {
    pub fn new(json: bool) -> Self {
        JTracker { json, ..Default::default() }
    }

    pub fn resting(&self) -> impl Iterator<Item = &Rec> {
        self.recs.iter().filter(|r| r.status == St::Resting)
    }

    pub fn on_insert(&mut self, ctx: &mut Ctx, spec: &JOrderSpec, pre: Option<(&VerifSnapshot, &VerifSnapshot)>, submit_clock: Option<i64>) {
        let order_view = spec.to_sut().verif_view();
        let idx = self.recs.len();
        self.recs.push(Rec {
            view: order_view,
            tag: spec.tag(),
            status: St::Buffered,
            id: None,
            submit_clock,
            attempted: false,
            is_child: false,
            waited_gap_ticks: 0,
        });
        self.by_tag.entry(spec.tag()).or_default().push(idx);
        self.buffered.push(idx);
        if let Some((pre, post)) = pre {
            let sig = spec.name();
            rule!(
                ctx, "C01", "insert-touches-book", sig,
                pre.book.len() == post.book.len() && pre.book.iter().zip(post.book.iter()).all(|(a, b)| a.order_id == b.order_id && a.order == b.order),
                "insert_order changed the resting book: {} -> {} orders", pre.book.len(), post.book.len()
            );
            let ok = post.buffer.len() == pre.buffer.len() + 1
                && pre.buffer.iter().zip(post.buffer.iter()).all(|(a, b)| a == b)
                && post.buffer.last().map_or(false, |v| view_eq(&self.recs[idx].view, v, self.json));
            if ok {
                // from here on compare with the order exactly as the SUT stores it
                self.recs[idx].view = post.buffer.last().unwrap().clone();
            } else if post.buffer.len() == pre.buffer.len() + 1 {
                if let Some(v) = post.buffer.last() {
                    if !view_eq(&self.recs[idx].view, v, self.json) {
                        // the exchange will match another order than the one the client sent: it follows
                        // another row of the table (C18 is stated for the order as submitted)
                        ctx.fail("C18", "submitted-order-altered", sig, format!("the exchange queued {} for the submitted {}", fmt_view(v), fmt_view(&self.recs[idx].view)));
                    }
                }
            }
            rule!(
                ctx, "C03", "insert-buffered", sig, ok,
                "after insert the pending buffer is not old buffer + the order: pre={} post={} last={:?}",
                pre.buffer.len(), post.buffer.len(), post.buffer.last().map(fmt_view)
            );
            rule!(ctx, "C03", "insert-tradelog", sig, pre.trade_log.len() == post.trade_log.len() && pre.next_id == post.next_id, "insert_order changed the trade log or the id counter");
        }
    }

    pub fn on_delete(&mut self, ctx: &mut Ctx, asset: u64, id: u64, pre: &VerifSnapshot, post: &VerifSnapshot) {
        let pos = pre.book.iter().position(|o| o.order_id == id && o.order.asset == asset);
        let id_in_book = pre.book.iter().any(|o| o.order_id == id);
        let kind = match (pos, self.by_id.get(&id).map(|i| self.recs[*i].status)) {
            (Some(_), _) => "resting",
            (None, _) if id_in_book => "wrong-asset",
            (None, Some(St::Filled)) => "stale-filled",
            (None, Some(St::Cancelled)) => "stale-cancelled",
            (None, Some(_)) => "stale-other",
            (None, None) => {
                if id >= pre.next_id && id < pre.next_id + pre.buffer.len() as u64 + 2 {
                    "not-yet-admitted"
                } else {
                    "never-issued"
                }
            }
        };
        match kind {
            "resting" => ctx.bump("f4_cancel_resting"),
            "wrong-asset" => ctx.bump("f4_cancel_right_id_wrong_asset"),
            "stale-filled" => ctx.bump("f4_cancel_filled"),
            "stale-cancelled" => ctx.bump("f4_cancel_cancelled"),
            "not-yet-admitted" => ctx.bump("f4_cancel_not_yet_admitted"),
            _ => ctx.bump("f4_cancel_never_issued"),
        }
        let mut expect: Vec<_> = pre.book.iter().collect();
        if let Some(p) = pos {
            expect.remove(p);
        }
        let ok = expect.len() == post.book.len()
            && expect.iter().zip(post.book.iter()).all(|(a, b)| a.order_id == b.order_id && a.order == b.order && a.attempted_execution == b.attempted_execution);
        rule!(
            ctx, "C03", "delete", kind, ok,
            "delete_order(asset {asset}, id {id}) [{kind}]: book {:?} -> {:?}",
            pre.book.iter().map(|o| (o.order_id, o.order.asset)).collect::<Vec<_>>(),
            post.book.iter().map(|o| (o.order_id, o.order.asset)).collect::<Vec<_>>()
        );
        rule!(
            ctx, "C03", "delete-buffer", kind,
            pre.buffer == post.buffer && pre.trade_log.len() == post.trade_log.len() && pre.next_id == post.next_id,
            "delete_order touched the pending buffer, the trade log or the id counter"
        );
        rule!(
            ctx, "C17", "book-in-admission-order", "delete", post.book.windows(2).all(|w| w[0].order_id < w[1].order_id),
            "book after delete_order is not in admission (id) order: {:?}", post.book.iter().map(|o| o.order_id).collect::<Vec<_>>()
        );
        if pos.is_some() {
            if let Some(i) = self.by_id.get(&id) {
                if self.recs[*i].status == St::Resting {
                    self.recs[*i].status = St::Cancelled;
                } else if self.recs[*i].status == St::Dead {
                    // removing a dead IOC from the book changes nothing observable
                }
            }
        }
    }

    /// The property's table (C18) for one resting order on one quote.
    fn expect(&mut self, i: usize, id: u64, bid: f64, ask: f64, date: i64, ctx: &mut Ctx) -> Exp {
        let r = &mut self.recs[i];
        let v = &r.view;
        let sz = v.sz.parse::<f64>().unwrap_or(f64::NAN);
        let mk = |px: f64, side: &str| Fill {
            closed_pnl: "0.0".to_string(),
            coin: v.asset.to_string(),
            crossed: false,
            dir: false,
            hash: false,
            oid: id,
            px: px.to_string(),
            side: side.to_string(),
            start_position: false,
            sz: sz.to_string(),
            time: date,
        };
        let limit = v.limit_px.parse::<f64>().unwrap_or(f64::NAN);
        match &v.kind {
            VerifOrderKind::LimitIoc => {
                if r.attempted {
                    return Exp::Drop;
                }
                r.attempted = true;
                if v.is_buy {
                    if ask <= limit * (1.0 + 0.1) {
                        ctx.bump("probe_ioc_filled");
                        Exp::Fill(mk(ask, "A"))
                    } else {
                        ctx.bump("probe_ioc_rejected_by_slippage");
                        Exp::Drop
                    }
                } else if bid >= limit * (1.0 - 0.1) {
                    ctx.bump("probe_ioc_filled");
                    Exp::Fill(mk(bid, "B"))
                } else {
                    ctx.bump("probe_ioc_rejected_by_slippage");
                    Exp::Drop
                }
            }
            VerifOrderKind::LimitGtc => {
                if v.is_buy {
                    if ask <= limit {
                        ctx.bump("probe_gtc_filled");
                        Exp::Fill(mk(ask, "A"))
                    } else {
                        ctx.bump("probe_gtc_rests");
                        Exp::Nothing
                    }
                } else if bid >= limit {
                    ctx.bump("probe_gtc_filled");
                    Exp::Fill(mk(bid, "B"))
                } else {
                    ctx.bump("probe_gtc_rests");
                    Exp::Nothing
                }
            }
            VerifOrderKind::LimitAlo => Exp::Nothing,
            VerifOrderKind::Trigger { trigger_px, is_tp, .. } => {
                let t = *trigger_px;
                let fire = match (*is_tp, v.is_buy) {
                    (false, true) => ask >= t,
                    (false, false) => bid <= t,
                    (true, true) => ask <= t,
                    (true, false) => bid >= t,
                };
                if fire {
                    ctx.bump("probe_trigger_fired");
                    Exp::Fire
                } else {
                    ctx.bump("probe_trigger_waits");
                    Exp::Nothing
                }
            }
        }
    }

    #[allow(clippy::too_many_arguments)]
    pub fn on_tick(
        &mut self,
        ctx: &mut Ctx,
        pre: &VerifSnapshot,
        quotes: &PenelopeQuoteByDate,
        fills: &[Fill],
        admitted: &[Order],
        triggered: Option<&[u64]>,
        post: &VerifSnapshot,
        expect_date: Option<i64>,
        judge_clock: bool,
    ) {
        self.ticks += 1;
        let admitted_views: Vec<VerifOrderView> = admitted.iter().map(|o| o.verif_view()).collect();
        let n_adm = admitted_views.len();

        // ---- buffer content (C03) -----------------------------------------------------------------
        {
            let mut a: Vec<u64> = pre.buffer.iter().map(|o| tag_of(&o.sz)).collect();
            let mut b: Vec<u64> = self.buffered.iter().map(|i| self.recs[*i].tag).collect();
            a.sort_unstable();
            b.sort_unstable();
            rule!(ctx, "C03", "buffer-content", "tick", a == b, "pending buffer before tick holds tags {:?}, inserted since last tick {:?}", a, b);
        }

        // ---- the book holds only orders that an earlier tick admitted or announced (C01, C03) ---------
        if ctx.wants("C01") || ctx.wants("C03") {
            let unknown: Vec<u64> = pre.book.iter().filter(|o| !self.by_id.contains_key(&o.order_id)).map(|o| o.order_id).take(5).collect();
            if !unknown.is_empty() {
                ctx.fail("C01", "in-book-before-admission", "tick", format!("when the tick began the book already held orders no earlier tick admitted (ids {:?}, {} submitted and waiting): they can fill on the tick that admits them", unknown, self.buffered.len()));
                ctx.fail("C03", "in-book-before-admission", "tick", format!("when the tick began the book already held orders no earlier tick admitted (ids {:?})", unknown));
            }
        }

        // ==== A. what the C18 table expects, from the SUT's own pre-tick book and the model's own
        //         one-shot flags ======================================================================
        let mut exp_fills: Vec<Fill> = Vec::new();
        let mut exp_fired: Vec<u64> = Vec::new();
        for o in &pre.book {
            let Some(&i) = self.by_id.get(&o.order_id) else { continue };
            if self.recs[i].status != St::Resting {
                continue;
            }
            match quotes.get(&o.order.asset.to_string()) {
                None => {
                    ctx.bump("f1_rest_across_gap");
                    self.recs[i].waited_gap_ticks += 1;
                    if self.recs[i].waited_gap_ticks >= 2 {
                        ctx.bump("probe_waited_2_gap_ticks");
                    }
                }
                Some(q) => match self.expect(i, o.order_id, q.bid, q.ask, q.date, ctx) {
                    Exp::Nothing | Exp::Drop => {}
                    Exp::Fill(f) => exp_fills.push(f),
                    Exp::Fire => exp_fired.push(o.order_id),
                },
            }
        }

        // ==== B. what the SUT did (structure only) ===================================================
        let pre_ids: Vec<u64> = pre.book.iter().map(|o| o.order_id).collect();
        let post_ids: Vec<u64> = post.book.iter().map(|o| o.order_id).collect();
        let pre_id_set: HashSet<u64> = pre_ids.iter().copied().collect();
        let post_id_set: HashSet<u64> = post_ids.iter().copied().collect();
        let filled_ids: HashSet<u64> = fills.iter().map(|f| f.oid).collect();
        let gone: Vec<u64> = pre_ids.iter().copied().filter(|id| !post_id_set.contains(id)).collect();
        let tail_start = post.book.len().saturating_sub(n_adm);
        let tail = &post.book[tail_start..];
        let tail_matches = tail.len() == n_adm && tail.iter().zip(admitted_views.iter()).all(|(b, a)| &b.order == a) && tail.iter().all(|b| !pre_id_set.contains(&b.order_id));
        // new entries that are not the batch: trigger children
        let children: Vec<&rotala::exchange::jura_v1::VerifRestingOrder> =
            post.book[..if tail_matches { tail_start } else { post.book.len() }].iter().filter(|o| !pre_id_set.contains(&o.order_id)).collect();
        let mut obs_fired: Vec<u64> = Vec::new();
        for id in &gone {
            let Some(&i) = self.by_id.get(id) else { continue };
            let is_trigger = matches!(self.recs[i].view.kind, VerifOrderKind::Trigger { .. });
            let is_ioc = matches!(self.recs[i].view.kind, VerifOrderKind::LimitIoc);
            if filled_ids.contains(id) {
                continue;
            }
            if is_trigger {
                obs_fired.push(*id);
            } else if is_ioc {
                // expiry of a one-shot order: legitimate once it has had an attempt; when exactly it
                // leaves the book is not observable through the API
                if self.recs[i].status == St::Resting {
                    if !self.recs[i].attempted {
                        ctx.fail(
                            "C03", "lost-order", view_name(&self.recs[i].view),
                            format!("IOC order id {id} left the book before its asset was ever quoted"),
                        );
                    }
                    self.recs[i].status = St::Dead;
                    ctx.bump("probe_ioc_expired_from_book");
                }
            } else if self.recs[i].status == St::Resting {
                ctx.fail(
                    "C03", "lost-order", view_name(&self.recs[i].view),
                    format!("resting order id {id} {} left the book without a fill, a cancel or an expiry", fmt_view(&self.recs[i].view)),
                );
                self.recs[i].status = St::Cancelled;
            }
        }
        for id in fills.iter().map(|f| &f.oid) {
            if post_id_set.contains(id) {
                ctx.fail("C03", "filled-stays", "tick", format!("order id {id} filled on this tick but is still in the book"));
            }
        }

        // ==== C. C18: observed == expected ============================================================
        let fill_eq = |a: &Fill, b: &Fill| {
            a.oid == b.oid
                && a.coin == b.coin
                && a.time == b.time
                && match (a.px.parse::<f64>(), b.px.parse::<f64>(), a.sz.parse::<f64>(), b.sz.parse::<f64>()) {
                    (Ok(p1), Ok(p2), Ok(s1), Ok(s2)) => p1 == p2 && s1 == s2,
                    _ => false,
                }
        };
        let mut g: Vec<&Fill> = fills.iter().collect();
        let mut x: Vec<&Fill> = exp_fills.iter().collect();
        let same_seq = g.len() == x.len() && g.iter().zip(x.iter()).all(|(a, b)| fill_eq(a, b));
        g.sort_by_key(|f| f.oid);
        x.sort_by_key(|f| f.oid);
        let same_set = g.len() == x.len() && g.iter().zip(x.iter()).all(|(a, b)| fill_eq(a, b));
        let book_txt = |pre: &VerifSnapshot| pre.book.iter().map(|o| format!("{}:{}{}", o.order_id, fmt_view(&o.order), if o.attempted_execution { "*" } else { "" })).collect::<Vec<_>>().join(", ");
        let quotes_txt = || {
            let mut q: Vec<_> = quotes.values().map(|q| (q.symbol.clone(), q.bid, q.ask, q.date)).collect();
            q.sort_by(|a, b| a.0.cmp(&b.0));
            format!("{:?}", q)
        };
        if ctx.wants("C18") && !same_set {
            let mut sig = "fills";
            for e in &x {
                if !g.iter().any(|f| fill_eq(f, e)) {
                    if let Some(i) = self.by_id.get(&e.oid) {
                        sig = view_name(&self.recs[*i].view);
                    }
                    break;
                }
            }
            if sig == "fills" {
                for f in &g {
                    if !x.iter().any(|e| fill_eq(f, e)) {
                        if let Some(i) = self.by_id.get(&f.oid) {
                            sig = view_name(&self.recs[*i].view);
                        }
                        break;
                    }
                }
            }
            ctx.fail(
                "C18", "fill-set", sig,
                format!(
                    "tick fills differ from the Jura table: got [{}] expected [{}] book [{}] quotes {}",
                    fills.iter().map(fmt_fill).collect::<Vec<_>>().join(", "),
                    exp_fills.iter().map(fmt_fill).collect::<Vec<_>>().join(", "),
                    book_txt(pre), quotes_txt()
                ),
            );
        }
        if same_set {
            rule!(
                ctx, "C17", "fill-order", "tick", same_seq,
                "fills not in book (admission) order: got [{}] expected [{}]",
                fills.iter().map(fmt_fill).collect::<Vec<_>>().join(", "),
                exp_fills.iter().map(fmt_fill).collect::<Vec<_>>().join(", ")
            );
        }
        {
            let mut a = obs_fired.clone();
            let mut b = exp_fired.clone();
            a.sort_unstable();
            b.sort_unstable();
            if ctx.wants("C18") && a != b {
                let odd = a.iter().find(|x| !b.contains(x)).or_else(|| b.iter().find(|x| !a.contains(x))).copied();
                let sig = odd.and_then(|id| self.by_id.get(&id)).map_or("trigger", |i| view_name(&self.recs[*i].view));
                ctx.fail(
                    "C18", "trigger-fire", sig,
                    format!("triggers that fired (left the book) {:?}, triggers the table says fire {:?}; book [{}] quotes {}", a, b, book_txt(pre), quotes_txt()),
                );
            }
        }
        // announcement and children
        if let Some(tr) = triggered {
            let child_ids: Vec<u64> = children.iter().map(|c| c.order_id).collect();
            rule!(
                ctx, "C18", "trigger-announce", "tick", tr == child_ids.as_slice() && tr.len() == obs_fired.len(),
                "{} triggers fired, children in the book have ids {:?}, announced {:?}", obs_fired.len(), child_ids, tr
            );
        }
        rule!(
            ctx, "C03", "trigger-child-count", "tick", children.len() == obs_fired.len() || !tail_matches,
            "{} triggers left the book but {} new non-batch orders appeared", obs_fired.len(), children.len()
        );
        rule!(
            ctx, "C18", "trigger-child-count", "tick", children.len() == obs_fired.len() || !tail_matches,
            "{} triggers left the book but {} children appeared", obs_fired.len(), children.len()
        );
        // pair the k-th fired trigger (book order) with the k-th child
        let fired_set: HashSet<u64> = obs_fired.iter().copied().collect();
        let fired_in_book_order: Vec<u64> = pre_ids.iter().copied().filter(|id| fired_set.contains(id)).collect();
        for (k, pid) in fired_in_book_order.iter().enumerate() {
            let Some(&pi) = self.by_id.get(pid) else { continue };
            self.recs[pi].status = St::Fired;
            let Some(c) = children.get(k) else { continue };
            let parent = self.recs[pi].view.clone();
            let want_kind = match parent.kind {
                VerifOrderKind::Trigger { is_market: true, .. } => VerifOrderKind::LimitIoc,
                _ => VerifOrderKind::LimitGtc,
            };
            let ok = c.order.asset == parent.asset
                && c.order.is_buy == parent.is_buy
                && c.order.limit_px == parent.limit_px
                && c.order.sz == parent.sz
                && c.order.kind == want_kind
                && !c.attempted_execution;
            rule!(
                ctx, "C18", "trigger-child", view_name(&parent), ok,
                "trigger {} fired; its child in the book is {}:{}", fmt_view(&parent), c.order_id, fmt_view(&c.order)
            );
            // fresh = never given to any order of this exchange (that ids also grow is C17's subject)
            let fresh = !self.by_id.contains_key(&c.order_id);
            rule!(ctx, "C18", "child-id-fresh", view_name(&parent), fresh, "child id {} is not fresh: it was already given to another order", c.order_id);
            rule!(ctx, "C17", "id-order", "trigger-child", self.max_id.map_or(true, |m| c.order_id > m), "trigger child id {} does not exceed earlier id {:?}", c.order_id, self.max_id);
            rule!(ctx, "C03", "id-reuse", "trigger-child", !self.by_id.contains_key(&c.order_id), "child id {} was already given to another order", c.order_id);
            let idx = self.recs.len();
            let (clock, tag) = (self.recs[pi].submit_clock, self.recs[pi].tag);
            self.recs.push(Rec { view: c.order.clone(), tag, status: St::Resting, id: Some(c.order_id), submit_clock: clock, attempted: false, is_child: true, waited_gap_ticks: 0 });
            self.by_id.insert(c.order_id, idx);
        }
        for c in children.iter().skip(fired_in_book_order.len()) {
            // surplus new orders: keep them known so that later rules have a record
            let idx = self.recs.len();
            self.recs.push(Rec { view: c.order.clone(), tag: tag_of(&c.order.sz), status: St::Resting, id: Some(c.order_id), submit_clock: None, attempted: false, is_child: true, waited_gap_ticks: 0 });
            self.by_id.entry(c.order_id).or_insert(idx);
        }
        for c in &children {
            self.max_id = Some(self.max_id.map_or(c.order_id, |m| m.max(c.order_id)));
        }

        // ---- per fill: C01, C03, C18 fields ---------------------------------------------------------
        for f in fills {
            let Some(&i) = self.by_id.get(&f.oid) else {
                let tag = tag_of(&f.sz);
                if let Some(j) = self.by_tag.get(&tag).and_then(|v| v.iter().copied().find(|j| self.recs[*j].status == St::Buffered)) {
                    ctx.fail("C01", "same-tick-fill", view_name(&self.recs[j].view), format!("order tag {tag} filled by the tick that admits it: {}", fmt_fill(f)));
                    ctx.fail("C03", "fill-unadmitted", "tick", format!("order tag {tag} filled before being admitted"));
                    continue;
                }
                ctx.fail("C03", "phantom-fill", "tick", format!("fill {} carries an id no order of this exchange has", fmt_fill(f)));
                continue;
            };
            let (status, sig, submit_clock, view, is_child) = {
                let r = &self.recs[i];
                (r.status, view_name(&r.view), r.submit_clock, r.view.clone(), r.is_child)
            };
            match status {
                St::Resting => {
                    if !pre_id_set.contains(&f.oid) {
                        ctx.fail("C01", "same-tick-fill", sig, format!("order id {} was not in the book when the tick began but filled: {}", f.oid, fmt_fill(f)));
                    }
                }
                St::Buffered => ctx.fail("C01", "same-tick-fill", sig, format!("order id {} filled by the tick that admits it", f.oid)),
                St::Filled => ctx.fail("C03", "double-fill", sig, format!("order id {} filled twice: {}", f.oid, fmt_fill(f))),
                St::Cancelled => ctx.fail("C03", "fill-after-cancel", sig, format!("cancelled order id {} filled: {}", f.oid, fmt_fill(f))),
                St::Dead => ctx.fail("C03", "fill-after-expiry", sig, format!("expired IOC order id {} filled: {}", f.oid, fmt_fill(f))),
                St::Fired => ctx.fail("C03", "fill-after-trigger", sig, format!("fired trigger id {} filled itself: {}", f.oid, fmt_fill(f))),
            }
            if matches!(view.kind, VerifOrderKind::Trigger { .. }) {
                ctx.fail("C18", "trigger-filled-itself", sig, format!("trigger order id {} produced a fill: {}", f.oid, fmt_fill(f)));
            }
            let want_sz = view.sz.parse::<f64>().unwrap_or(f64::NAN);
            rule!(ctx, "C03", "fill-quantity", sig, f.sz.parse::<f64>().map_or(false, |s| s == want_sz), "order id {} of size {} filled for {}", f.oid, view.sz, f.sz);
            rule!(
                ctx, "C18", "fill-fields", sig,
                f.coin == view.asset.to_string() && f.sz.parse::<f64>().map_or(false, |s| s == want_sz),
                "fill {} does not carry the order's asset {} and size {}", fmt_fill(f), view.asset, view.sz
            );
            match quotes.get(&f.coin) {
                None => ctx.fail("C01", "fill-without-quote", sig, format!("fill {} but the tick carried no quote for {}", fmt_fill(f), f.coin)),
                Some(q) => {
                    rule!(ctx, "C01", "fill-date", sig, f.time == q.date, "fill {} dated {} but this tick's quote is dated {}", fmt_fill(f), f.time, q.date);
                    let px = f.px.parse::<f64>().unwrap_or(f64::NAN);
                    rule!(ctx, "C01", "fill-price", sig, px == q.ask || px == q.bid, "fill {} not priced from this tick's quote bid={:?} ask={:?}", fmt_fill(f), q.bid, q.ask);
                    rule!(
                        ctx, "C18", "fill-side-price", sig, px == if view.is_buy { q.ask } else { q.bid } && f.time == q.date,
                        "fill {} of a {} should be at {} dated {}", fmt_fill(f), if view.is_buy { "buy" } else { "sell" }, if view.is_buy { q.ask } else { q.bid }, q.date
                    );
                }
            }
            if let Some(d) = expect_date {
                rule!(ctx, "C07", "fill-date", "tick", f.time == d, "tick matched against date {} produced a fill dated {}", d, f.time);
            }
            if judge_clock {
                if let Some(c) = submit_clock {
                    rule!(ctx, "C01", "fill-not-after-submission", sig, f.time > c, "order id {} submitted at clock {c} filled with date {}", f.oid, f.time);
                }
            }
            if status == St::Resting && self.recs[i].waited_gap_ticks > 0 {
                ctx.bump("probe_fill_after_gap");
            }
            if is_child {
                ctx.bump("probe_child_filled");
            }
            self.recs[i].status = St::Filled;
            ctx.bump("fills");
        }

        // ---- admission: C03 / C17 ------------------------------------------------------------------
        {
            let mut a: Vec<u64> = admitted_views.iter().map(|o| tag_of(&o.sz)).collect();
            let mut b: Vec<u64> = self.buffered.iter().map(|i| self.recs[*i].tag).collect();
            a.sort_unstable();
            b.sort_unstable();
            let ok = a == b;
            rule!(ctx, "C03", "admitted-set", "tick", ok, "admitted tags {:?} but submitted since last tick {:?}", a, b);
            rule!(ctx, "C17", "admitted-set", "tick", ok, "admitted tags {:?} but submitted since last tick {:?}", a, b);
        }
        let n_sell = admitted_views.iter().filter(|o| !o.is_buy).count();
        if n_sell > 0 && n_sell < n_adm {
            ctx.bump("probe_mixed_batch");
            if n_adm > 20 {
                ctx.bump("probe_mixed_batch_gt20");
            }
            ctx.nontrivial |= ctx.focus == "C17";
        }
        let mut seen_buy = false;
        for o in &admitted_views {
            if o.is_buy {
                seen_buy = true;
            } else if seen_buy {
                ctx.fail(
                    "C17", "sells-first", view_name(o),
                    format!("batch of {} admitted with a sell after a buy: [{}]", n_adm, admitted_views.iter().map(|o| if o.is_buy { 'B' } else { 'S' }).collect::<String>()),
                );
                break;
            }
        }
        // ids of the batch are read from the book tail (Jura does not show them on admission)
        if !tail_matches {
            ctx.fail(
                "C17", "admitted-not-in-book", "tick",
                format!("the {} orders reported as admitted are not the tail of the book after the tick (book tail ids {:?})", n_adm, tail.iter().map(|o| o.order_id).collect::<Vec<_>>()),
            );
            ctx.fail(
                "C03", "book-conservation", "tick",
                format!(
                    "the {} admitted orders are not the tail of the book after the tick: tail [{}] admitted [{}]",
                    n_adm,
                    tail.iter().map(|o| format!("{}:{}", o.order_id, fmt_view(&o.order))).collect::<Vec<_>>().join(", "),
                    admitted_views.iter().map(fmt_view).collect::<Vec<_>>().join(", ")
                ),
            );
        } else {
            let mut prev: Option<u64> = None;
            for (b, a) in tail.iter().zip(admitted_views.iter()) {
                let id = b.order_id;
                let tag = tag_of(&a.sz);
                if let Some(j) = self.by_id.get(&id) {
                    ctx.fail("C03", "id-reuse", "tick", format!("id {id} given to tag {tag} was already given to tag {}", self.recs[*j].tag));
                }
                match prev {
                    Some(p) => rule!(ctx, "C17", "id-order", "tick", id > p, "ids do not grow along the admitted batch: {p} then {id}"),
                    None => {
                        if let Some(m) = self.max_id {
                            rule!(ctx, "C17", "id-order", "tick", id > m, "admitted id {id} does not exceed earlier id {m} (children of this tick included)");
                        }
                    }
                }
                prev = Some(id);
                // match with one still-buffered submitted order of that size, field by field
                let cands: Vec<usize> = self.by_tag.get(&tag).map(|v| v.iter().copied().filter(|i| self.recs[*i].status == St::Buffered).collect()).unwrap_or_default();
                if let Some(i) = cands.iter().copied().find(|i| view_eq(&self.recs[*i].view, a, self.json)) {
                    self.recs[i].view = a.clone();
                    self.recs[i].status = St::Resting;
                    self.recs[i].id = Some(id);
                    self.by_id.insert(id, i);
                } else if let Some(i) = cands.first().copied() {
                    ctx.fail("C03", "admitted-altered", view_name(a), format!("admitted {} differs from submitted {}", fmt_view(a), fmt_view(&self.recs[i].view)));
                    ctx.fail("C18", "submitted-order-altered", view_name(a), format!("admitted {} differs from submitted {}", fmt_view(a), fmt_view(&self.recs[i].view)));
                    self.recs[i].view = a.clone();
                    self.recs[i].status = St::Resting;
                    self.recs[i].id = Some(id);
                    self.by_id.insert(id, i);
                } else if self.by_tag.contains_key(&tag) {
                    ctx.fail("C03", "admitted-twice", "tick", format!("an order of size tag {tag} was reported admitted more often than it was submitted"));
                }
                self.max_id = Some(self.max_id.map_or(id, |m| m.max(id)));
            }
        }
        for i in std::mem::take(&mut self.buffered) {
            if self.recs[i].status == St::Buffered {
                self.recs[i].status = St::Cancelled;
            }
        }

        // ---- consistency of history and book (C03) ---------------------------------------------------
        if ctx.wants("C03") {
            let mut model: Vec<u64> = self.recs.iter().filter(|r| r.status == St::Resting).filter_map(|r| r.id).collect();
            let mut sut: Vec<u64> = post_ids.clone();
            model.sort_unstable();
            sut.sort_unstable();
            rule!(
                ctx, "C03", "admitted-equals-filled-cancelled-resting", "tick", model == sut,
                "resting ids by history {:?} but book holds {:?}", model, sut
            );
        }
        // unchanged resting orders stay unchanged (C18: a GTC "rests", a trigger waits)
        if ctx.wants("C18") {
            for o in &post.book {
                if let Some(&i) = self.by_id.get(&o.order_id) {
                    if self.recs[i].status == St::Resting && self.recs[i].view != o.order {
                        ctx.fail("C18", "resting-changed", view_name(&o.order), format!("resting order {} changed to {}", fmt_view(&self.recs[i].view), fmt_view(&o.order)));
                        break;
                    }
                }
            }
        }
        // the book is kept in admission order: ids grow from front to back (time priority), so the
        // fills of a tick come out in ascending id
        rule!(
            ctx, "C17", "book-in-admission-order", "tick", post_ids.windows(2).all(|w| w[0] < w[1]),
            "book after tick is not in admission (id) order: {:?}", post_ids
        );
        rule!(
            ctx, "C17", "fill-order", "tick-ids", fills.windows(2).all(|w| w[0].oid < w[1].oid) || !pre_ids.windows(2).all(|w| w[0] < w[1]),
            "fills of one tick are not in admission (id) order: {:?}", fills.iter().map(|f| f.oid).collect::<Vec<_>>()
        );
        rule!(ctx, "C03", "buffer-cleared", "tick", post.buffer.is_empty(), "pending buffer not empty after tick: {} orders", post.buffer.len());
        {
            let ok = post.trade_log.len() == pre.trade_log.len() + fills.len()
                && post.trade_log[pre.trade_log.len().min(post.trade_log.len())..].iter().zip(fills.iter()).all(|(a, b)| a.oid == b.oid && a.px == b.px && a.sz == b.sz && a.time == b.time);
            rule!(ctx, "C03", "trade-log", "tick", ok, "trade log grew from {} to {} but the tick reported {} fills", pre.trade_log.len(), post.trade_log.len(), fills.len());
        }
        if ctx.focus == "C18" && (!obs_fired.is_empty() || ctx.counters.contains_key("probe_ioc_rejected_by_slippage")) {
            ctx.nontrivial = true;
        }
    }
}
