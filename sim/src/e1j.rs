//! Engine E1/Jura: the Jura exchange driven (a) bare, with arbitrary per-tick quote maps, and (b)
//! through the backtest server (`AppState`, Direct or Json path) by several simulated clients whose
//! requests a seeded scheduler interleaves. Decides C18 and the Jura side of C01 C03 C07 C08 C17.
//! (Structure mirrors e1u.rs; the exchange-specific parts differ.)

use crate::clock::{date_index, BtInfo, Digest, Sched};
use crate::common::{catch, Ctx, Tier, X};
use crate::e1j_model::{fmt_fill, fmt_view, JKind, JOrderSpec as OrderSpec, JTracker as ExTracker, St};
use crate::engine::Engine;
use crate::rng::Rng;
use crate::server::{JuraServer as UistServer, Path};
use crate::world::{gen_dataset, DatasetSpec, WorldCfg, WorldStats};
use crate::{ev, rule};
use rotala::exchange::jura_v1::{JuraV1 as UistV1, Order, VerifSnapshot};
use rotala::http::jura::AppState;
use rotala::input::penelope::{PenelopeQuote, PenelopeQuoteByDate};
use serde::{Deserialize, Serialize};
use std::collections::{BTreeMap, BTreeSet, HashMap, VecDeque};

#[derive(Clone, Copy, Debug, PartialEq, Eq, Serialize, Deserialize)]
pub enum Layer {
    Bare,
    Server,
}

#[derive(Clone, Debug, Serialize, Deserialize)]
pub struct QuoteSpec {
    pub symbol: String,
    pub bid: X,
    pub ask: X,
    pub date: i64,
}

#[derive(Clone, Debug, Serialize, Deserialize)]
pub enum Op {
    Create { client: u8, init: bool, dataset: String },
    Insert { client: u8, bt: u64, order: OrderSpec, light: bool },
    Delete { client: u8, bt: u64, asset: u64, id: u64 },
    Tick { client: u8, bt: u64 },
    Fetch { client: u8, bt: u64 },
    Info { client: u8, bt: u64 },
    /// bare layer: tick with exactly these quotes
    BareTick { quotes: Vec<QuoteSpec> },
}

impl Op {
    fn kind(&self) -> u64 {
        match self {
            Op::Create { .. } => 1,
            Op::Insert { .. } => 2,
            Op::Delete { .. } => 3,
            Op::Tick { .. } => 4,
            Op::Fetch { .. } => 5,
            Op::Info { .. } => 7,
            Op::BareTick { .. } => 8,
        }
    }
    fn client(&self) -> u64 {
        match self {
            Op::Create { client, .. }
            | Op::Insert { client, .. }
            | Op::Delete { client, .. }
            | Op::Tick { client, .. }
            | Op::Fetch { client, .. }
            | Op::Info { client, .. } => *client as u64,
            Op::BareTick { .. } => 0,
        }
    }
    fn bt(&self) -> Option<u64> {
        match self {
            Op::Insert { bt, .. }
            | Op::Delete { bt, .. }
            | Op::Tick { bt, .. }
            | Op::Fetch { bt, .. }
            | Op::Info { bt, .. } => Some(*bt),
            _ => None,
        }
    }
}

#[derive(Clone, Debug, Serialize, Deserialize)]
pub struct Case {
    pub layer: Layer,
    pub path: Path,
    /// AppState::single(datasets[0]) (backtest 0 exists) vs AppState::create(all datasets)
    pub single: bool,
    pub datasets: Vec<DatasetSpec>,
    pub ops: Vec<Op>,
}

pub struct E1J;

// ------------------------------------------------------------------------------------------------

struct Sim<'a> {
    ctx: Ctx,
    layer: Layer,
    path: Path,
    single: bool,
    datasets: &'a [DatasetSpec],
    srv: Option<UistServer>,
    bare: Option<UistV1>,
    bts: Vec<BtInfo>,
    trackers: Vec<ExTracker>,
    known_ids: BTreeSet<u64>,
    digests: BTreeMap<u64, u64>,
    /// per backtest handle: (ops addressed to it, canonical responses) for the solo re-run (C08)
    scripts: Vec<(Vec<Op>, Vec<String>)>,
    next_tag: u64,
    bare_dates: Vec<i64>,
    dirty: BTreeSet<u64>,
}

pub fn snapshot_digest(s: &VerifSnapshot) -> u64 {
    let mut d = Digest::new();
    d.u(s.next_id).u(s.book.len() as u64).u(s.buffer.len() as u64).u(s.trade_log.len() as u64);
    for o in s.book.iter() {
        d.u(o.order_id).b(o.attempted_execution).s(&fmt_view(&o.order));
    }
    for o in s.buffer.iter() {
        d.s(&fmt_view(o));
    }
    for t in &s.trade_log {
        d.u(t.oid).s(&t.px).s(&t.sz).i(t.time);
    }
    d.0
}

fn empty_snapshot() -> VerifSnapshot {
    VerifSnapshot { book: vec![], buffer: vec![], next_id: 0, trade_log: vec![] }
}

fn row_for(ds: &DatasetSpec, idx: usize) -> PenelopeQuoteByDate {
    ds.row_map(idx)
}

fn canon_tick(has_next: bool, fills: &[rotala::exchange::jura_v1::Fill], orders: &[Order], triggered: Option<&[u64]>) -> String {
    format!(
        "has_next={} fills=[{}] admitted=[{}] triggered={:?}",
        has_next,
        fills.iter().map(fmt_fill).collect::<Vec<_>>().join(","),
        orders.iter().map(|o| fmt_view(&o.verif_view())).collect::<Vec<_>>().join(","),
        triggered
    )
}

pub fn canon_quotes(q: &PenelopeQuoteByDate) -> String {
    let mut v: Vec<&PenelopeQuote> = q.values().collect();
    v.sort_by(|a, b| a.symbol.cmp(&b.symbol));
    v.iter().map(|q| format!("{}:{:?}/{:?}@{}", q.symbol, q.bid, q.ask, q.date)).collect::<Vec<_>>().join(",")
}

impl<'a> Sim<'a> {
    fn new(case_layer: Layer, path: Path, single: bool, datasets: &'a [DatasetSpec], focus: &str, keep_text: bool) -> Self {
        let ctx = Ctx::new(focus, keep_text);
        let mut sim = Sim {
            ctx,
            layer: case_layer,
            path,
            single,
            datasets,
            srv: None,
            bare: None,
            bts: Vec::new(),
            trackers: Vec::new(),
            known_ids: BTreeSet::new(),
            digests: BTreeMap::new(),
            scripts: Vec::new(),
            next_tag: 1,
            bare_dates: Vec::new(),
            dirty: BTreeSet::new(),
        };
        match case_layer {
            Layer::Bare => {
                sim.bare = Some(if datasets[0].dates.len() % 2 == 0 { UistV1::new() } else { UistV1::default() });
                sim.bts.push(BtInfo { id: 0, ds: 0, k: 0, owner: 0, last_has_next: true, aliased: false });
                sim.trackers.push(ExTracker::new(false));
                sim.scripts.push((vec![], vec![]));
            }
            Layer::Server => {
                sim.srv = Some(Self::fresh_server(path, single, datasets));
                if single {
                    sim.bts.push(BtInfo { id: 0, ds: 0, k: 0, owner: 0, last_has_next: true, aliased: false });
                    sim.trackers.push(ExTracker::new(path == Path::Json));
                    sim.scripts.push((vec![], vec![]));
                    sim.known_ids.insert(0);
                    sim.refresh_digest(0);
                }
            }
        }
        sim
    }

    fn fresh_server(path: Path, single: bool, datasets: &[DatasetSpec]) -> UistServer {
        let state = if single {
            AppState::single(&datasets[0].name, datasets[0].build())
        } else {
            let mut m: HashMap<String, rotala::input::penelope::Penelope> = HashMap::new();
            for d in datasets {
                m.insert(d.name.clone(), d.build());
            }
            AppState::create(&mut m)
        };
        UistServer::new(state, path)
    }

    fn handle_of(&self, id: u64) -> Option<usize> {
        // the latest backtest created with that id
        self.bts.iter().rposition(|b| b.id == id)
    }

    fn snapshot(&self, id: u64) -> Option<VerifSnapshot> {
        match self.layer {
            Layer::Bare => self.bare.as_ref().map(|e| e.verif_snapshot()),
            Layer::Server => self.srv.as_ref().unwrap().with_state(|s| s.backtests.get(&id).map(|b| b.exchange.verif_snapshot())),
        }
    }

    fn bt_digest(&self, id: u64) -> Option<u64> {
        self.srv.as_ref().unwrap().with_state(|s| {
            s.backtests.get(&id).map(|b| {
                let mut d = Digest::new();
                d.u(b.id).i(b.date).u(b.pos as u64).s(&b.dataset_name).u(snapshot_digest(&b.exchange.verif_snapshot()));
                d.0
            })
        })
    }

    fn refresh_digest(&mut self, id: u64) {
        if self.layer == Layer::Server && self.ctx.wants("C08") {
            if let Some(d) = self.bt_digest(id) {
                self.digests.insert(id, d);
            } else {
                self.digests.remove(&id);
            }
        }
    }

    /// C08: after an op addressed to `addressed` (None: nobody / unknown target) every other
    /// backtest is exactly as it was.
    fn check_others_untouched(&mut self, addressed: Option<u64>, what: &str) {
        if self.layer != Layer::Server || !self.ctx.wants("C08") {
            return;
        }
        let ids: Vec<u64> = self.srv.as_ref().unwrap().with_state(|s| {
            let mut v: Vec<u64> = s.backtests.keys().copied().collect();
            v.sort_unstable();
            v
        });
        let expected_ids: Vec<u64> = {
            let mut v: Vec<u64> = self.digests.keys().copied().collect();
            if let Some(a) = addressed {
                if !v.contains(&a) && ids.contains(&a) {
                    v.push(a);
                    v.sort_unstable();
                }
            }
            v
        };
        rule!(
            self.ctx, "C08", "backtest-set", what, ids == expected_ids,
            "{what}: set of backtests changed from {:?} to {:?}", expected_ids, ids
        );
        // with very many backtests only a fixed sample is digested after every request (the oldest
        // sixteen, which carry the state, and every 64th); the set of ids above is always compared in full
        let many = ids.len() > 64;
        for (pos, id) in ids.into_iter().enumerate() {
            if Some(id) == addressed {
                continue;
            }
            if many && pos >= 16 && pos % 64 != 0 {
                continue;
            }
            let now = self.bt_digest(id);
            let before = self.digests.get(&id).copied();
            if now != before {
                self.ctx.fail(
                    "C08", "interference", what,
                    format!("{what} addressed to {:?} changed the state of backtest {id}", addressed),
                );
                break;
            }
        }
        if addressed.is_some() {
            self.ctx.bump("f7_interleaved_other_backtests_checked");
        }
    }

    fn record(&mut self, handle: Option<usize>, op: &Op, resp: String) {
        if self.ctx.wants("C08") {
            if let Some(h) = handle {
                self.scripts[h].0.push(op.clone());
                self.scripts[h].1.push(resp);
            }
        }
    }

    fn abstract_state(&mut self, h: usize) {
        let b = &self.bts[h];
        let n = self.datasets[b.ds].n();
        let kb = if b.k == 0 { 0 } else if b.k < n { 1 } else if b.k == n { 2 } else { 3 };
        let mut counts = [0u64; 9];
        let mut resting = 0u64;
        for r in self.trackers[h].resting() {
            let i = match crate::e1j_model::view_name(&r.view) {
                "ioc-buy" => 0, "ioc-sell" => 1, "gtc-buy" => 2, "gtc-sell" => 3, "sl-buy" => 4, "sl-sell" => 5, "tp-buy" => 6, "tp-sell" => 7, _ => 8,
            };
            counts[i] = (counts[i] + 1).min(3);
            resting += 1;
        }
        let mut d = Digest::new();
        d.u(kb).u(resting.min(8)).u((self.trackers[h].buffered.len() as u64).min(4));
        for c in counts {
            d.u(c);
        }
        d.u(self.bts.len().min(4) as u64);
        self.ctx.state(d.0);
    }

    // --------------------------------------------------------------------------------------------
    // executing one op
    // --------------------------------------------------------------------------------------------

    fn exec(&mut self, op: &Op) {
        if !self.dirty.is_empty() && !matches!(op, Op::Insert { light: true, .. }) {
            for id in std::mem::take(&mut self.dirty) {
                self.refresh_digest(id);
            }
        }
        self.ctx.ops += 1;
        self.ctx.ileave(op.client(), op.bt().unwrap_or(u64::MAX), op.kind());
        let r = catch(|| self.exec_inner(op));
        if let Err(p) = r {
            let msg = format!("SUT panicked during {:?}: {p}", op);
            ev!(self.ctx, "PANIC {p}");
            let focus = self.ctx.focus.clone();
            let prop = if focus == "ALL" { "C03".to_string() } else { focus };
            self.ctx.fail(&prop, "sut-panic", "e1j", msg);
        }
    }

    fn exec_inner(&mut self, op: &Op) {
        match op {
            Op::Create { client, init, dataset } => self.do_create(op, *client, *init, dataset),
            Op::Insert { bt, order, light, .. } => self.do_insert(op, *bt, order, *light),
            Op::Delete { bt, asset, id, .. } => self.do_delete(op, *bt, *asset, *id),
            Op::Tick { bt, .. } => self.do_tick(op, *bt),
            Op::Fetch { bt, .. } => self.do_fetch(op, *bt),
            Op::Info { bt, .. } => self.do_info(op, *bt),
            Op::BareTick { quotes } => self.do_bare_tick(quotes),
        }
    }

    fn do_create(&mut self, op: &Op, client: u8, init: bool, dataset: &str) {
        if self.layer != Layer::Server {
            return;
        }
        let ds_idx = if self.single {
            if dataset == self.datasets[0].name { Some(0) } else { None }
        } else {
            self.datasets.iter().position(|d| d.name == dataset)
        };
        let (last_before, n_before) = self.srv.as_ref().unwrap().with_state(|s| (s.last, s.backtests.len()));
        let r = {
            let srv = self.srv.as_ref().unwrap();
            if init { srv.init(dataset) } else { srv.new_backtest(dataset) }
        };
        ev!(self.ctx, "c{client} create init={init} ds={dataset} -> {:?}", r.as_ref().map_err(|e| e.status));
        match (&r, ds_idx) {
            (Ok(id), Some(di)) => {
                let id = *id;
                let fresh = !self.known_ids.contains(&id);
                rule!(
                    self.ctx, "C08", "id-unique", if init { "init" } else { "new_backtest" }, fresh,
                    "{} returned backtest id {id}, which was already handed out (ids so far {:?})",
                    if init { "init" } else { "new_backtest" }, self.known_ids
                );
                if !fresh {
                    // the SUT has replaced that backtest; forget the harness model of the old one
                    for h in 0..self.bts.len() {
                        if self.bts[h].id != id || self.bts[h].aliased {
                            continue;
                        }
                        // whatever that backtest's exchange still held is gone with it
                        self.orders_lost_with_backtest(h, "backtest-replaced");
                        self.bts[h].aliased = true;
                    }
                }
                self.known_ids.insert(id);
                self.bts.push(BtInfo { id, ds: di, k: 0, owner: client, last_has_next: true, aliased: false });
                self.trackers.push(ExTracker::new(self.path == Path::Json));
                self.scripts.push((vec![op.clone()], vec![format!("created")]));
                // fresh backtest: first date, empty book
                let ds = &self.datasets[di];
                let (date, pos, snap) = self.srv.as_ref().unwrap().with_state(|s| {
                    let b = s.backtests.get(&id);
                    (b.map(|b| b.date), b.map(|b| b.pos), b.map(|b| b.exchange.verif_snapshot()))
                });
                let snap = snap.unwrap_or_else(empty_snapshot);
                rule!(
                    self.ctx, "C08", "fresh-backtest", "create",
                    date == Some(ds.dates[0]) && pos == Some(0) && snap.book.is_empty() && snap.buffer.is_empty() && snap.trade_log.is_empty(),
                    "new backtest {id} is not at the first date with an empty book: date={date:?} pos={pos:?} book={} buffer={} log={}",
                    snap.book.len(), snap.buffer.len(), snap.trade_log.len()
                );
                rule!(
                    self.ctx, "C07", "initial-clock", "create", date == Some(ds.dates[0]),
                    "new backtest {id} starts at {date:?}, first date is {}", ds.dates[0]
                );
                self.check_others_untouched(Some(id), "create");
                self.refresh_digest(id);
                self.ctx.bump("backtests_created");
            }
            (Err(rej), None) => {
                self.ctx.bump("f5_unknown_dataset");
                rule!(self.ctx, "C08", "unknown-status", "dataset", rej.status == 400, "unknown dataset answered with status {}", rej.status);
                let (last_after, n_after) = self.srv.as_ref().unwrap().with_state(|s| (s.last, s.backtests.len()));
                rule!(
                    self.ctx, "C08", "unknown-inert", "dataset", last_after == last_before && n_after == n_before,
                    "rejected create for unknown dataset changed state: last {last_before}->{last_after}, backtests {n_before}->{n_after}"
                );
                self.check_others_untouched(None, "create-unknown-dataset");
            }
            (Ok(id), None) => {
                self.ctx.fail("C08", "unknown-accepted", "dataset", format!("create on unknown dataset {dataset:?} returned id {id}"));
            }
            (Err(rej), Some(_)) => {
                self.ctx.fail("C08", "known-rejected", "dataset", format!("create on known dataset {dataset:?} rejected: {:?}", rej));
            }
        }
    }

    /// C03 "none is lost": a backtest that the server replaces or drops takes its live orders with it.
    fn orders_lost_with_backtest(&mut self, h: usize, sig: &str) {
        use crate::e1j_model::St as St;
        let live: Vec<Option<u64>> = self.trackers[h].recs.iter().filter(|r| matches!(r.status, St::Buffered | St::Resting)).map(|r| r.id).collect();
        if !live.is_empty() {
            let id = self.bts[h].id;
            self.ctx.fail(
                "C03", "lost-order", sig,
                format!("backtest {id} no longer exists on the server (or was replaced by a new one with the same id) while {} of its orders were neither filled nor cancelled (ids {:?}; None = not yet admitted)", live.len(), live),
            );
        }
    }

    /// Common handling of a request aimed at a backtest id the server does not know.
    /// A request aimed at a backtest the harness created but the server no longer knows.
    fn vanished(&mut self, bt: u64, what: &str) -> bool {
        if let Some(h) = self.handle_of(bt) {
            if !self.bts[h].aliased {
                let k = self.bts[h].k;
                let msg = format!("backtest {bt} was created and ticked {k} times, but the server no longer knows it ({what} is answered as for an unknown backtest)");
                self.ctx.fail("C07", "backtest-vanished", what, msg.clone());
                self.ctx.fail("C08", "backtest-vanished", what, msg);
                self.orders_lost_with_backtest(h, "backtest-vanished");
                self.bts[h].aliased = true;
                return true;
            }
        }
        false
    }

    fn unknown_target(&mut self, what: &str, ok: bool, status: u16) {
        self.ctx.bump("f5_unknown_backtest");
        rule!(self.ctx, "C08", "unknown-accepted", what, !ok, "{what} on an unknown backtest id was accepted");
        if !ok {
            rule!(self.ctx, "C08", "unknown-status", what, status == 400, "{what} on unknown backtest answered with status {status}");
        }
        self.check_others_untouched(None, what);
    }

    fn clock_of(&self, id: u64) -> Option<(i64, usize)> {
        self.srv.as_ref().unwrap().with_state(|s| s.backtests.get(&id).map(|b| (b.date, b.pos)))
    }

    fn do_insert(&mut self, op: &Op, bt: u64, spec: &OrderSpec, light: bool) {
        let order = spec.to_sut();
        match self.layer {
            Layer::Bare => {
                let pre = if light { None } else { self.snapshot(0) };
                self.bare.as_mut().unwrap().insert_order(order);
                ev!(self.ctx, "insert {:?}", spec);
                if let Some(pre) = pre {
                    let post = self.snapshot(0).unwrap();
                    self.trackers[0].on_insert(&mut self.ctx, spec, Some((&pre, &post)), None);
                } else {
                    self.trackers[0].on_insert(&mut self.ctx, spec, None, None);
                }
            }
            Layer::Server => {
                let h = self.handle_of(bt);
                let exists = self.srv.as_ref().unwrap().with_state(|s| s.backtests.contains_key(&bt));
                let pre = if light || !exists { None } else { self.snapshot(bt) };
                let clock = self.clock_of(bt).map(|c| c.0);
                let r = self.srv.as_ref().unwrap().insert(&order, bt);
                ev!(self.ctx, "insert bt={bt} {:?} -> {:?}", spec, r.as_ref().map_err(|e| e.status));
                self.record(h, op, format!("{:?}", r.as_ref().map_err(|e| e.status)));
                if !exists {
                    if self.vanished(bt, "insert_order") {
                        return;
                    }
                    self.unknown_target("insert_order", r.is_ok(), r.as_ref().err().map_or(200, |e| e.status));
                    return;
                }
                rule!(self.ctx, "C08", "known-rejected", "insert_order", r.is_ok(), "insert_order on existing backtest {bt} rejected: {:?}", r);
                if let Some(h) = h {
                    if !self.bts[h].aliased {
                        if let Some(pre) = pre {
                            let post = self.snapshot(bt).unwrap();
                            self.trackers[h].on_insert(&mut self.ctx, spec, Some((&pre, &post)), clock);
                        } else {
                            self.trackers[h].on_insert(&mut self.ctx, spec, None, clock);
                        }
                        // the clock does not move on insert
                        self.check_clock(h, "insert_order");
                    }
                }
                if light {
                    // inside a big burst: the digests are brought up to date once, before the next
                    // operation that is not part of the burst
                    self.dirty.insert(bt);
                } else {
                    self.check_others_untouched(Some(bt), "insert_order");
                    self.refresh_digest(bt);
                }
            }
        }
    }

    fn do_delete(&mut self, op: &Op, bt: u64, asset: u64, id: u64) {
        match self.layer {
            Layer::Bare => {
                let pre = self.snapshot(0).unwrap();
                self.bare.as_mut().unwrap().delete_order(asset, id);
                let post = self.snapshot(0).unwrap();
                ev!(self.ctx, "delete asset={asset} id={id}");
                self.trackers[0].on_delete(&mut self.ctx, asset, id, &pre, &post);
            }
            Layer::Server => {
                let h = self.handle_of(bt);
                let pre = self.snapshot(bt);
                let r = self.srv.as_ref().unwrap().delete(asset, id, bt);
                ev!(self.ctx, "delete bt={bt} asset={asset} id={id} -> {:?}", r.as_ref().map_err(|e| e.status));
                self.record(h, op, format!("{:?}", r.as_ref().map_err(|e| e.status)));
                let Some(pre) = pre else {
                    if self.vanished(bt, "delete_order") {
                        return;
                    }
                    self.unknown_target("delete_order", r.is_ok(), r.as_ref().err().map_or(200, |e| e.status));
                    return;
                };
                rule!(self.ctx, "C08", "known-rejected", "delete_order", r.is_ok(), "delete_order on existing backtest {bt} rejected: {:?}", r);
                if let Some(h) = h {
                    if !self.bts[h].aliased {
                        let post = self.snapshot(bt).unwrap();
                        self.trackers[h].on_delete(&mut self.ctx, asset, id, &pre, &post);
                        self.check_clock(h, "delete_order");
                    }
                }
                self.check_others_untouched(Some(bt), "delete_order");
                self.refresh_digest(bt);
            }
        }
    }

    /// C07: the server clock of handle h is where k ticks put it.
    fn check_clock(&mut self, h: usize, what: &str) {
        if !self.ctx.wants("C07") {
            return;
        }
        let b = &self.bts[h];
        let ds = &self.datasets[b.ds];
        let want = ds.dates[date_index(b.k, ds.n())];
        let got = self.clock_of(b.id).map(|c| c.0);
        rule!(
            self.ctx, "C07", "clock", what, got == Some(want),
            "after {what} and {} ticks on a {}-date dataset the clock of backtest {} is {:?}, expected {}",
            b.k, ds.n(), b.id, got, want
        );
    }

    fn do_tick(&mut self, op: &Op, bt: u64) {
        if self.layer != Layer::Server {
            return;
        }
        let h = self.handle_of(bt);
        let pre = self.snapshot(bt);
        // C07: a copy of the exchange as it is before the tick, ticked by the harness on the row of date k
        let twin = if self.ctx.wants("C07") { self.srv.as_ref().unwrap().with_state(|s| s.backtests.get(&bt).map(|b| b.exchange.clone())) } else { None };
        let r = self.srv.as_ref().unwrap().tick(bt);
        let Some(pre) = pre else {
            ev!(self.ctx, "tick bt={bt} -> {:?}", r.as_ref().map(|_| ()).map_err(|e| e.status));
            if self.vanished(bt, "tick") {
                return;
            }
            self.unknown_target("tick", r.is_ok(), r.as_ref().err().map_or(200, |e| e.status));
            return;
        };
        let resp = match r {
            Ok(x) => x,
            Err(rej) => {
                ev!(self.ctx, "tick bt={bt} -> rejected {}", rej.status);
                self.ctx.fail("C08", "known-rejected", "tick", format!("tick on existing backtest {bt} rejected: {:?}", rej));
                return;
            }
        };
        let canon = canon_tick(resp.has_next, &resp.fills, &resp.orders, resp.triggered.as_deref());
        ev!(self.ctx, "tick bt={bt} -> {canon}");
        self.record(h, op, canon);
        self.ctx.sim_ticks += 1;
        if let Some(h) = h {
            if !self.bts[h].aliased {
                let post = self.snapshot(bt).unwrap();
                let (ds_idx, k_before) = (self.bts[h].ds, self.bts[h].k);
                let ds = &self.datasets[ds_idx];
                let n = ds.n();
                let di = date_index(k_before, n);
                let quotes = row_for(ds, di);
                let within = k_before < n;
                // C01's clause about the submission clock is stated for clients that stop ticking once
                // has_next is false: it applies to every tick such a client performs, i.e. while the
                // server itself has reported has_next = true (for a correct clock the same as k < N)
                let client_still_ticking = self.bts[h].last_has_next;
                if !within {
                    self.ctx.bump("f3_tick_past_end");
                }
                if k_before + 1 == n {
                    self.ctx.bump("probe_last_tick");
                }
                if n == 1 {
                    self.ctx.bump("f3_single_date_dataset");
                }
                if pre.buffer.iter().any(|_| true) && k_before + 1 >= n {
                    self.ctx.bump("probe_submission_on_last_date");
                }
                if let (Some(mut twin), true) = (twin, within) {
                    let (t, a, tr) = twin.tick(&quotes);
                    let mine = canon_tick(true, &t, &a, if resp.triggered.is_some() { Some(&tr) } else { None });
                    let theirs = canon_tick(true, &resp.fills, &resp.orders, resp.triggered.as_deref());
                    rule!(
                        self.ctx, "C07", "tick-matches-date-k", "tick", mine == theirs,
                        "tick #{} of backtest {bt} did not do what the exchange does on the quotes of date {} (index {di}): server {theirs}, exchange on that row {mine}",
                        k_before + 1, ds.dates[di]
                    );
                    if !t.is_empty() {
                        self.ctx.bump("probe_c07_twin_ticks_with_fills");
                    }
                }
                self.trackers[h].on_tick(
                    &mut self.ctx,
                    &pre,
                    &quotes,
                    &resp.fills,
                    &resp.orders,
                    resp.triggered.as_deref(),
                    &post,
                    Some(ds.dates[di]),
                    client_still_ticking,
                );
                self.bts[h].k = k_before + 1;
                self.bts[h].last_has_next = resp.has_next;
                let k = k_before + 1;
                rule!(
                    self.ctx, "C07", "has-next", "tick", resp.has_next == (k < n),
                    "tick #{k} on a {n}-date dataset reported has_next={}", resp.has_next
                );
                if k == n && !resp.has_next {
                    self.ctx.nontrivial |= self.ctx.focus == "C07";
                    self.ctx.bump("probe_loop_client_stopped_after_exactly_n");
                }
                self.check_clock(h, "tick");
                if !resp.fills.is_empty() {
                    self.ctx.nontrivial |= matches!(self.ctx.focus.as_str(), "C01" | "C03");
                }
                self.abstract_state(h);
            }
        }
        self.check_others_untouched(Some(bt), "tick");
        self.refresh_digest(bt);
    }

    fn do_fetch(&mut self, op: &Op, bt: u64) {
        if self.layer != Layer::Server {
            return;
        }
        let h = self.handle_of(bt);
        let exists = self.srv.as_ref().unwrap().with_state(|s| s.backtests.contains_key(&bt));
        let r = self.srv.as_ref().unwrap().fetch(bt);
        let canon = match &r {
            Ok(q) => canon_quotes(&q.quotes),
            Err(e) => format!("rejected {}", e.status),
        };
        ev!(self.ctx, "fetch bt={bt} -> {canon}");
        self.record(h, op, canon);
        if !exists {
            if self.vanished(bt, "fetch_quotes") {
                return;
            }
            self.unknown_target("fetch_quotes", r.is_ok(), r.as_ref().err().map_or(200, |e| e.status));
            return;
        }
        match (r, h) {
            (Ok(q), Some(h)) if !self.bts[h].aliased => {
                let b = &self.bts[h];
                let ds = &self.datasets[b.ds];
                let di = date_index(b.k, ds.n());
                let want = row_for(ds, di);
                let json = self.path == Path::Json;
                let same = want.len() == q.quotes.len()
                    && want.iter().all(|(s, w)| {
                        q.quotes.get(s).map_or(false, |g| {
                            g.symbol == w.symbol
                                && g.date == w.date
                                && if json { crate::common::close(g.bid, w.bid, 1e-12) && crate::common::close(g.ask, w.ask, 1e-12) } else { g.bid == w.bid && g.ask == w.ask }
                        })
                    });
                rule!(
                    self.ctx, "C07", "fetch-row", "fetch_quotes", same,
                    "after {} ticks fetch_quotes of backtest {} shows [{}], expected the row of date {}: [{}]",
                    b.k, b.id, canon_quotes(&q.quotes), ds.dates[di], canon_quotes(&want)
                );
                let clock = ds.dates[di];
                rule!(
                    self.ctx, "C07", "quote-after-clock", "fetch_quotes", q.quotes.values().all(|g| g.date <= clock),
                    "fetch_quotes shows a quote dated after the clock {clock}: [{}]", canon_quotes(&q.quotes)
                );
                self.check_clock(h, "fetch_quotes");
                self.ctx.bump("probe_fetch_checked");
            }
            (Err(rej), _) => self.ctx.fail("C08", "known-rejected", "fetch_quotes", format!("fetch_quotes on existing backtest {bt} rejected: {:?}", rej)),
            _ => {}
        }
        self.check_others_untouched(Some(bt), "fetch_quotes");
        // a read must not change the addressed backtest either
        if self.ctx.wants("C08") {
            let now = self.bt_digest(bt);
            let before = self.digests.get(&bt).copied();
            rule!(self.ctx, "C08", "read-mutates", "fetch_quotes", now == before, "fetch_quotes changed the state of backtest {bt}");
        }
    }

    fn do_info(&mut self, op: &Op, bt: u64) {
        if self.layer != Layer::Server {
            return;
        }
        let h = self.handle_of(bt);
        let exists = self.srv.as_ref().unwrap().with_state(|s| s.backtests.contains_key(&bt));
        let r = self.srv.as_ref().unwrap().info(bt);
        let canon = match &r {
            Ok(i) => format!("version={} dataset={}", i.version, i.dataset),
            Err(e) => format!("rejected {}", e.status),
        };
        ev!(self.ctx, "info bt={bt} -> {canon}");
        self.record(h, op, canon);
        if !exists {
            if self.vanished(bt, "info") {
                return;
            }
            self.unknown_target("info", r.is_ok(), r.as_ref().err().map_or(200, |e| e.status));
            return;
        }
        if let (Ok(i), Some(h)) = (&r, h) {
            if !self.bts[h].aliased {
                let want = &self.datasets[self.bts[h].ds].name;
                rule!(self.ctx, "C08", "info-dataset", "info", &i.dataset == want, "info of backtest {bt} names dataset {:?}, created on {:?}", i.dataset, want);
                self.check_clock(h, "info");
            }
        }
        if let Err(rej) = &r {
            self.ctx.fail("C08", "known-rejected", "info", format!("info on existing backtest {bt} rejected: {:?}", rej));
        }
        self.check_others_untouched(Some(bt), "info");
    }

    fn do_bare_tick(&mut self, quotes: &[QuoteSpec]) {
        if self.layer != Layer::Bare {
            return;
        }
        let mut map: PenelopeQuoteByDate = HashMap::new();
        for q in quotes {
            map.insert(q.symbol.clone(), PenelopeQuote { bid: q.bid.0, ask: q.ask.0, symbol: q.symbol.clone(), date: q.date });
        }
        if let Some(d) = quotes.first().map(|q| q.date) {
            if self.bare_dates.contains(&d) {
                self.ctx.bump("f3_bare_tick_repeats_earlier_date");
            }
            self.bare_dates.push(d);
        }
        let pre = self.snapshot(0).unwrap();
        let (trades, admitted, triggered) = self.bare.as_mut().unwrap().tick(&map);
        let post = self.snapshot(0).unwrap();
        ev!(self.ctx, "baretick [{}] -> {}", canon_quotes(&map), canon_tick(true, &trades, &admitted, Some(&triggered)));
        self.ctx.sim_ticks += 1;
        self.trackers[0].on_tick(&mut self.ctx, &pre, &map, &trades, &admitted, Some(&triggered), &post, None, false);
        self.bts[0].k += 1;
        if !trades.is_empty() {
            self.ctx.nontrivial |= matches!(self.ctx.focus.as_str(), "C01" | "C03");
        }
        self.abstract_state(0);
    }

    // --------------------------------------------------------------------------------------------
    // C08 (iv): per-backtest response streams equal a solo run
    // --------------------------------------------------------------------------------------------

    fn solo_check(&mut self) {
        if self.layer != Layer::Server || !self.ctx.wants("C08") || self.ctx.failed() {
            return;
        }
        if self.bts.len() < 2 {
            return;
        }
        for h in 0..self.bts.len() {
            if self.bts[h].aliased || self.scripts[h].0.len() < 2 {
                continue;
            }
            let id = self.bts[h].id;
            let (ops, resps) = (self.scripts[h].0.clone(), self.scripts[h].1.clone());
            let res = catch(|| solo_run(self.path, self.single, self.datasets, id, &ops));
            match res {
                Err(p) => {
                    self.ctx.fail("C08", "sut-panic", "solo", format!("solo re-run of backtest {id} panicked: {p}"));
                    return;
                }
                Ok(solo) => {
                    self.ctx.bump("probe_solo_reruns");
                    if solo.len() != resps.len() || solo.iter().zip(resps.iter()).any(|(a, b)| a != b) {
                        let first = solo.iter().zip(resps.iter()).position(|(a, b)| a != b).unwrap_or(solo.len().min(resps.len()));
                        self.ctx.fail(
                            "C08", "non-interference", "solo",
                            format!(
                                "backtest {id}: response #{first} differs between the interleaved run and a solo run: interleaved {:?} vs solo {:?} (op {:?})",
                                resps.get(first), solo.get(first), ops.get(first)
                            ),
                        );
                        return;
                    }
                    self.ctx.nontrivial |= self.ctx.focus == "C08";
                }
            }
        }
    }
}

/// Re-run the ops of one backtest alone on a fresh server; ids are renamed.
fn solo_run(path: Path, single: bool, datasets: &[DatasetSpec], old_id: u64, ops: &[Op]) -> Vec<String> {
    let srv = Sim::fresh_server(path, single, datasets);
    let mut id = old_id; // `single`'s backtest 0 needs no creation
    let mut out = Vec::new();
    for op in ops {
        let s = match op {
            Op::Create { init, dataset, .. } => {
                let r = if *init { srv.init(dataset) } else { srv.new_backtest(dataset) };
                match r {
                    Ok(new) => {
                        id = new;
                        "created".to_string()
                    }
                    Err(e) => format!("create rejected {}", e.status),
                }
            }
            Op::Insert { order, .. } => format!("{:?}", srv.insert(&order.to_sut(), id).map_err(|e| e.status)),
            Op::Delete { asset, id: oid, .. } => format!("{:?}", srv.delete(*asset, *oid, id).map_err(|e| e.status)),
            Op::Tick { .. } => match srv.tick(id) {
                Ok(resp) => canon_tick(resp.has_next, &resp.fills, &resp.orders, resp.triggered.as_deref()),
                Err(e) => format!("rejected {}", e.status),
            },
            Op::Fetch { .. } => match srv.fetch(id) {
                Ok(q) => canon_quotes(&q.quotes),
                Err(e) => format!("rejected {}", e.status),
            },
            Op::Info { .. } => match srv.info(id) {
                Ok(i) => format!("version={} dataset={}", i.version, i.dataset),
                Err(e) => format!("rejected {}", e.status),
            },
            Op::BareTick { .. } => String::new(),
        };
        out.push(s);
    }
    out
}

// ------------------------------------------------------------------------------------------------
// generation
// ------------------------------------------------------------------------------------------------

struct GenCfg {
    max_ops: usize,
    n_clients: usize,
    max_bts: usize,
    w_insert: u32,
    w_tick: u32,
    w_delete: u32,
    w_fetch: u32,
    w_now: u32,
    w_info: u32,
    create_p: f64,
    bogus_p: f64,
    shared_p: f64,
    typ_w: [u32; 8],
    serde_p: f64,
    burst_p: f64,
    order_budget: u64,
    burst_sizes: &'static [usize],
    drain: bool,
    frac_shares_p: f64,
    dup_p: f64,
    mass_create: bool,
    giant_burst: bool,
    huge: bool,
    preset_id_p: f64,
    unknown_symbol_p: f64,
}

struct Gen {
    rng: Rng,
    cfg: GenCfg,
    sched: Sched,
    queue: VecDeque<Op>,
    issued: usize,
}

pub fn price_near(rng: &mut Rng, ds: &DatasetSpec, sym: &str, from: usize) -> f64 {
    // look ahead in the dataset for a quote of this symbol: the generator may peek, the SUT may not
    let n = ds.n();
    let start = from.min(n - 1);
    let mut reference: Option<(f64, f64)> = None;
    let look = rng.usize(4);
    for d in (start + look.min(n - 1 - start))..n {
        if let Some(q) = ds.quote(d, sym) {
            reference = Some(q);
            break;
        }
    }
    if reference.is_none() {
        for d in 0..n {
            if let Some(q) = ds.quote(d, sym) {
                reference = Some(q);
                break;
            }
        }
    }
    let Some((bid, ask)) = reference else {
        return 0.25 * rng.range(4, 800) as f64;
    };
    let base = if rng.one_in(2) { bid } else { ask };
    if rng.one_in(12) {
        // the neighbouring double: one ulp above or below the quote (a "tolerance" added to a
        // comparison shows only here, and only for small prices)
        let bits = base.to_bits();
        return f64::from_bits(if rng.one_in(2) { bits + 1 } else { bits.saturating_sub(1) });
    }
    let step = *rng.pick(&[0.0, 0.0, 0.25, -0.25, 0.5, -0.5, 1.0, -1.0, 3.0, -3.0]);
    let mut p = if rng.one_in(12) { base * (0.5 + rng.f64()) } else { base + step };
    if !(p > 0.0) {
        p = base.max(0.25);
    }
    p
}

impl Gen {
    fn new(seed: u64, tier: Tier, focus: &str) -> Self {
        let root = Rng::new(seed);
        let mut c = root.fork("cfg");
        let thorough = tier == Tier::Thorough;
        let n_clients = match focus {
            "C08" | "C07" => c.range(2, if thorough { 6 } else { 4 }) as usize,
            _ => c.range(1, if thorough { 6 } else { 4 }) as usize,
        };
        let big = focus == "C17";
        let burst_sizes: &'static [usize] = if thorough {
            if big { &[3, 8, 21, 33, 64, 65, 200, 1000, 5000] } else { &[3, 8, 21, 33, 64, 65, 200, 3, 8, 21, 33, 64, 65, 200, 3, 8, 21, 33, 64, 200, 5000] }
        } else if big {
            &[3, 5, 8, 21, 22, 33, 64, 65, 100]
        } else {
            &[3, 5, 8, 21]
        };
        let mut typ_w = [10u32, 10, 10, 10, 10, 10, 10, 10];
        // swarm: switch some order types off in some runs
        for w in typ_w.iter_mut() {
            if c.one_in(5) {
                *w = 0;
            }
        }
        if typ_w.iter().all(|w| *w == 0) {
            typ_w = [10; 8];
        }
        let cfg = GenCfg {
            max_ops: if crate::common::long_run(seed, tier) { if thorough { c.range(300, 1500) as usize } else { c.range(200, 600) as usize } } else if thorough { c.range(20, 400) as usize } else { c.range(10, 80) as usize },
            n_clients,
            max_bts: if focus == "C08" { c.range(2, 6) as usize } else { c.range(1, 4) as usize },
            w_insert: *c.pick(&[30, 40, 60]),
            w_tick: *c.pick(&[15, 25, 40]),
            w_delete: *c.pick(&[0, 5, 10, 20]),
            w_fetch: *c.pick(&[0, 4, 10]),
            w_now: *c.pick(&[0, 3, 8]),
            w_info: *c.pick(&[0, 1, 3]),
            create_p: *c.pick(&[0.02, 0.05, 0.15]),
            bogus_p: *c.pick(&[0.0, 0.02, 0.08]),
            shared_p: *c.pick(&[0.0, 0.1, 0.5]),
            typ_w,
            serde_p: *c.pick(&[0.0, 0.3, 0.7]),
            burst_p: if big { *c.pick(&[0.05, 0.1, 0.2]) } else { *c.pick(&[0.0, 0.01, 0.03]) },
            burst_sizes,
            order_budget: if thorough { 7000 } else { 1500 },
            drain: c.chance(0.7),
            frac_shares_p: *c.pick(&[0.0, 0.1]),
            dup_p: *c.pick(&[0.0, 0.2, 0.6]),
            mass_create: focus == "C08" && c.one_in(if thorough { 40 } else { 400 }),
            giant_burst: c.one_in(if thorough { 60 } else { 400 }),
            huge: big || thorough,
            preset_id_p: *c.pick(&[0.0, 0.0, 0.1]),
            unknown_symbol_p: *c.pick(&[0.0, 0.03]),
        };
        let mut s = root.fork("sched");
        let sched = Sched::new(&mut s, n_clients);
        Gen { rng: root.fork("ops"), cfg, sched, queue: VecDeque::new(), issued: 0 }
    }

    /// kind index: 0 ioc-buy 1 ioc-sell 2 gtc-buy 3 gtc-sell 4 sl-buy 5 sl-sell 6 tp-buy 7 tp-sell
    fn order(&mut self, sim: &mut Sim, h: usize, force_buy: Option<bool>) -> OrderSpec {
        let ds = &sim.datasets[sim.bts[h].ds];
        let k = sim.bts[h].k;
        let symbol = if self.rng.chance(self.cfg.unknown_symbol_p) { "99".to_string() } else { self.rng.pick(&ds.symbols).clone() };
        let asset: u64 = symbol.parse().unwrap_or(99);
        let mut kind_idx = self.rng.weighted(&self.cfg.typ_w);
        if let Some(b) = force_buy {
            kind_idx = (kind_idx & !1) | if b { 0 } else { 1 };
        }
        let is_buy = kind_idx % 2 == 0;
        let tag = if self.rng.chance(self.cfg.dup_p) && sim.next_tag > 1 {
            sim.ctx.bump("probe_duplicate_quantity_orders");
            (sim.next_tag - 1).saturating_sub(self.rng.below(3)).max(1)
        } else {
            sim.next_tag += 1;
            sim.next_tag - 1
        };
        let sz = match self.rng.usize(10) {
            0 => format!("{tag}.5"),
            1 | 2 => format!("{tag}.0"),
            3 => format!("{tag}.00"),
            _ => format!("{tag}"),
        };
        let fmt_px = |rng: &mut Rng, p: f64| -> String {
            match rng.usize(4) {
                0 => format!("{:.2}", p),
                1 => format!("{:.1}", p),
                _ => format!("{}", p),
            }
        };
        // the same number in an unusual but valid spelling (prices and sizes are strings on Jura): drawn from a
        // fork so that the other orders stay what they were
        let respell = |rng: &mut Rng, s: String| -> String {
            let mut r = rng.fork("spelling");
            if !r.one_in(40) || s.starts_with('-') {
                return s;
            }
            match r.usize(4) {
                0 => format!("+{s}"),
                1 => format!("0{s}"),
                2 => {
                    if s.contains('.') {
                        format!("{s}0")
                    } else {
                        format!("{s}.0")
                    }
                }
                _ => match s.parse::<f64>() {
                    Ok(v) if v > 0.0 => format!("{:e}", v),
                    _ => s,
                },
            }
        };
        let mut px = price_near(&mut self.rng, ds, &symbol, k + 1);
        if kind_idx < 2 && self.rng.one_in(2) {
            // around the 10% slippage boundary
            px = if is_buy { px / 1.1 } else { px / 0.9 };
            if self.rng.one_in(2) {
                px += *self.rng.pick(&[0.01, -0.01, 0.25, -0.25]);
            }
            if !(px > 0.0) {
                px = 0.25;
            }
        }
        let limit_px = {
            let plain = fmt_px(&mut self.rng, px);
            let spelled = respell(&mut self.rng, plain.clone());
            // only if it is the same number to the last bit
            if spelled.parse::<f64>().ok().map(f64::to_bits) == plain.parse::<f64>().ok().map(f64::to_bits) {
                if spelled != plain {
                    sim.ctx.bump("probe_price_in_unusual_spelling");
                }
                spelled
            } else {
                plain
            }
        };
        let via_serde = self.rng.chance(self.cfg.serde_p);
        let kind = match kind_idx / 2 {
            0 => JKind::Ioc,
            1 => JKind::Gtc,
            n => {
                let is_tp = n == 3;
                if via_serde {
                    let t = if self.rng.one_in(2) { limit_px.parse::<f64>().unwrap() } else { price_near(&mut self.rng, ds, &symbol, k + 1) };
                    JKind::Trigger { trigger_px: X(t), is_market: self.rng.one_in(2), is_tp }
                } else {
                    JKind::Trigger { trigger_px: X(limit_px.parse::<f64>().unwrap()), is_market: true, is_tp }
                }
            }
        };
        let (reduce_only, cloid) = if via_serde && self.rng.one_in(4) { (self.rng.one_in(2), Some(format!("c{tag}"))) } else { (false, None) };
        OrderSpec { asset, is_buy, limit_px, sz, kind, ctor: !via_serde, reduce_only, cloid }
    }

    fn burst(&mut self, sim: &mut Sim, client: u8, h: usize) {
        let size = *self.rng.pick(self.cfg.burst_sizes);
        let layout = self.rng.usize(7);
        let p = *self.rng.pick(&[0.1, 0.5, 0.9]);
        let bt = sim.bts[h].id;
        let odd = self.rng.usize(size.max(1));
        let block = self.rng.range(1, 24) as usize;
        let flip = self.rng.one_in(2);
        for i in 0..size {
            let buy = match layout {
                0 => self.rng.chance(p),
                1 => i % 2 == 0,
                2 => i % 2 == 1,
                3 => (i / block) % 2 == 0,
                4 => i != odd,
                5 => i == odd,
                _ => (i >= size / 2) != flip,
            };
            let order = self.order(sim, h, Some(buy));
            self.queue.push_back(Op::Insert { client, bt, order, light: size > 24 });
        }
        sim.ctx.bump("f12_bursts");
        if size > 20 {
            sim.ctx.bump("f12_bursts_gt20");
        }
    }

    fn next(&mut self, sim: &mut Sim) -> Option<Op> {
        if let Some(op) = self.queue.pop_front() {
            return Some(op);
        }
        if self.issued >= self.cfg.max_ops {
            return None;
        }
        self.issued += 1;
        if self.cfg.giant_burst && self.issued == self.cfg.max_ops / 3 + 1 {
            // one batch larger than any buffer bound or sweep threshold a maintainer is likely to pick
            self.cfg.giant_burst = false;
            let live: Vec<usize> = (0..sim.bts.len()).filter(|h| !sim.bts[*h].aliased).collect();
            if let Some(&h) = live.first() {
                sim.ctx.bump("f12_giant_bursts");
                let saved = std::mem::replace(&mut self.cfg.burst_sizes, if self.cfg.huge { &[4100, 8200, 10100] } else { &[4100, 4500, 5000] });
                let owner = sim.bts[h].owner;
                self.burst(sim, owner, h);
                self.cfg.burst_sizes = saved;
                let bt = sim.bts[h].id;
                if sim.layer == Layer::Server {
                    // tick twice so that the batch is admitted and then matched
                    self.queue.push_back(Op::Tick { client: owner, bt });
                    self.queue.push_back(Op::Tick { client: owner, bt });
                }
                return self.queue.pop_front();
            }
        }
        if self.cfg.mass_create && sim.layer == Layer::Server && self.issued == self.cfg.max_ops / 2 {
            self.cfg.mass_create = false;
            sim.ctx.bump("probe_mass_creation_of_backtests");
            for i in 0..1100usize {
                let dataset = sim.datasets[i % sim.datasets.len()].name.clone();
                let dataset = if sim.single { sim.datasets[0].name.clone() } else { dataset };
                self.queue.push_back(Op::Create { client: (i % self.sched.n) as u8, init: sim.path == Path::Json || i % 2 == 0, dataset });
            }
        }
        if sim.layer == Layer::Bare {
            return Some(self.next_bare(sim));
        }
        let client = self.sched.next(&mut self.rng);
        let live: Vec<usize> = (0..sim.bts.len()).filter(|h| !sim.bts[*h].aliased).collect();
        let mine: Vec<usize> = live.iter().copied().filter(|h| sim.bts[*h].owner == client).collect();
        let want_create = live.is_empty() || (mine.is_empty() && self.rng.chance(0.7)) || (sim.bts.len() < self.cfg.max_bts && self.rng.chance(self.cfg.create_p));
        if want_create {
            let dataset = if self.rng.chance(0.06) { crate::e1u::unknown_name(&mut self.rng, sim.datasets) } else { self.rng.pick(sim.datasets).name.clone() };
            let dataset = if sim.single && !self.rng.chance(0.06) { sim.datasets[0].name.clone() } else { dataset };
            let init = sim.path == Path::Json || self.rng.one_in(2);
            return Some(Op::Create { client, init, dataset });
        }
        let pool = if mine.is_empty() || self.rng.chance(self.cfg.shared_p) { &live } else { &mine };
        let h = *self.rng.pick(pool);
        if sim.bts[h].owner != client {
            sim.ctx.bump("f8_shared_backtest_ops");
        }
        let mut bt = sim.bts[h].id;
        let bogus = self.rng.chance(self.cfg.bogus_p);
        if bogus {
            bt = *self.rng.pick(&[999u64, 77, u64::MAX, sim.known_ids.iter().max().copied().unwrap_or(0) + 1]);
        }
        // an order budget per run keeps the books (and the SUT's own quadratic removals) tractable
        if self.rng.chance(self.cfg.burst_p) && !bogus && sim.next_tag < self.cfg.order_budget {
            self.burst(sim, client, h);
            return self.queue.pop_front();
        }
        let w = [self.cfg.w_insert, self.cfg.w_tick, self.cfg.w_delete, self.cfg.w_fetch, self.cfg.w_info];
        Some(match self.rng.weighted(&w) {
            0 => {
                let order = self.order(sim, h, None);
                Op::Insert { client, bt, order, light: false }
            }
            1 => Op::Tick { client, bt },
            2 => {
                let (asset, id) = self.pick_delete_id(sim, h);
                Op::Delete { client, bt, asset, id }
            }
            3 => Op::Fetch { client, bt },
            _ => Op::Info { client, bt },
        })
    }

    fn pick_delete_id(&mut self, sim: &Sim, h: usize) -> (u64, u64) {
        let t = &sim.trackers[h];
        let resting: Vec<(u64, u64)> = t.resting().filter_map(|r| r.id.map(|i| (r.view.asset, i))).collect();
        let dead: Vec<(u64, u64)> = t.recs.iter().filter(|r| matches!(r.status, St::Filled | St::Cancelled | St::Dead | St::Fired)).filter_map(|r| r.id.map(|i| (r.view.asset, i))).collect();
        let next = t.max_id.map_or(0, |m| m + 1);
        let any_asset = sim.datasets[sim.bts[h].ds].symbols[0].parse::<u64>().unwrap_or(0);
        match self.rng.usize(11) {
            0..=4 if !resting.is_empty() => *self.rng.pick(&resting),
            5 | 6 if !dead.is_empty() => *self.rng.pick(&dead),
            7 => (any_asset, next + self.rng.below(3)),
            8 => (any_asset, *self.rng.pick(&[u64::MAX, 1 << 40, 12345])),
            9 if !resting.is_empty() => {
                // right id, wrong asset
                let (a, i) = *self.rng.pick(&resting);
                (a + 1, i)
            }
            _ => {
                if !resting.is_empty() {
                    *self.rng.pick(&resting)
                } else {
                    (any_asset, next)
                }
            }
        }
    }

    fn next_bare(&mut self, sim: &mut Sim) -> Op {
        let w = [self.cfg.w_insert, self.cfg.w_tick, self.cfg.w_delete];
        if self.rng.chance(self.cfg.burst_p) && sim.next_tag < self.cfg.order_budget {
            self.burst(sim, 0, 0);
            return self.queue.pop_front().unwrap();
        }
        match self.rng.weighted(&w) {
            0 => {
                let order = self.order(sim, 0, None);
                Op::Insert { client: 0, bt: 0, order, light: false }
            }
            1 => {
                let ds = &sim.datasets[0];
                // mostly walk forward through the rows, sometimes jump to an arbitrary (earlier) row
                let k = sim.bts[0].k;
                let row = if self.rng.one_in(6) { self.rng.usize(ds.n()) } else { k % ds.n() };
                let mut quotes = Vec::new();
                let shift = if self.rng.one_in(4) { self.rng.range(-5, 5) } else { 0 };
                for (s, sym) in ds.symbols.iter().enumerate() {
                    if let Some((bid, ask)) = ds.rows[row][s] {
                        let bump = if self.rng.one_in(3) { 0.25 * self.rng.range(-4, 4) as f64 } else { 0.0 };
                        let b = (bid.0 + bump).max(0.25);
                        let a = (ask.0 + bump).max(0.25);
                        let date = ds.dates[row] + (k as i64) * 1000 + shift + if self.rng.one_in(10) { s as i64 } else { 0 };
                        quotes.push(QuoteSpec { symbol: sym.clone(), bid: X(b), ask: X(a), date });
                    }
                }
                if self.rng.one_in(25) {
                    quotes.clear();
                }
                Op::BareTick { quotes }
            }
            _ => {
                let (asset, id) = self.pick_delete_id(sim, 0);
                Op::Delete { client: 0, bt: 0, asset, id }
            }
        }
    }
}

fn finish(sim: &mut Sim) {
    sim.solo_check();
    sim.ctx.sim_span = sim.bts.iter().map(|b| {
        let ds = &sim.datasets[b.ds];
        let i = date_index(b.k, ds.n());
        ds.dates[i].saturating_sub(ds.dates[0])
    }).fold(0i64, |a, b| a.saturating_add(b));
}

impl Engine for E1J {
    type Case = Case;

    fn name(&self) -> &'static str {
        "e1-jura"
    }

    fn prefers_processes(&self) -> bool {
        true // JuraV1::tick println!s the whole book: threads would serialise on the stdout lock
    }

    fn generate(&self, seed: u64, focus: &str, tier: Tier, keep_text: bool) -> (Case, Ctx) {
        let root = Rng::new(seed);
        let mut w = root.fork("world");
        let layer = match focus {
            "C07" | "C08" => Layer::Server,
            _ => if w.one_in(4) { Layer::Bare } else { Layer::Server },
        };
        let path = if layer == Layer::Server && w.one_in(4) { Path::Json } else { Path::Direct };
        let single = layer == Layer::Server && w.one_in(3);
        let mut cfg = WorldCfg::exchange(true);
        if crate::common::long_run(seed, tier) {
            cfg.n_min = 100;
            cfg.n_max = if tier == Tier::Thorough { 600 } else { 300 };
        } else if tier == Tier::Thorough {
            cfg.n_max = 60;
            cfg.sym_max = 6;
        }
        if layer == Layer::Bare {
            cfg.n_min = 2;
        }
        let mut st = WorldStats::default();
        let nds = if layer == Layer::Server && !single { w.range(1, 3) as usize } else { 1 };
        let names = ["fake", "Fake", "BTC/USDT+100% ü"]; // case twins; a name that must be percent-encoded in a URL
        let datasets: Vec<DatasetSpec> = (0..nds).map(|i| gen_dataset(&mut w, names[i], &cfg, &mut st)).collect();

        let mut gen = Gen::new(seed, tier, focus);
        let mut ops: Vec<Op> = Vec::new();
        let mut sim = Sim::new(layer, path, single, &datasets, focus, keep_text);
        sim.ctx.add("f1_quote_gaps_in_world", st.gaps);
        sim.ctx.add("f2_price_jumps_in_world", st.jumps);
        sim.ctx.add("f3_irregular_date_steps", st.irregular_dates);
        sim.ctx.add("datasets_loaded_symbol_by_symbol", st.by_symbol);
        sim.ctx.add("datasets_loaded_through_serde", st.via_serde);
        sim.ctx.add("crossed_quotes_in_world", st.crossed);
        if path == Path::Json {
            sim.ctx.bump("runs_json_path");
        }
        if layer == Layer::Bare {
            sim.ctx.bump("runs_bare_layer");
        }
        while !sim.ctx.failed() {
            let Some(op) = gen.next(&mut sim) else { break };
            sim.exec(&op);
            ops.push(op);
        }
        // the loop client: tick every backtest until has_next is false (cap N+2)
        if gen.cfg.drain && layer == Layer::Server && !sim.ctx.failed() {
            for h in 0..sim.bts.len() {
                if sim.bts[h].aliased {
                    continue;
                }
                let n = sim.datasets[sim.bts[h].ds].n();
                let mut guard = 0;
                while sim.bts[h].last_has_next && sim.bts[h].k < n + 2 && guard < n + 3 && !sim.ctx.failed() {
                    let op = Op::Tick { client: sim.bts[h].owner, bt: sim.bts[h].id };
                    sim.exec(&op);
                    ops.push(op);
                    guard += 1;
                }
            }
        }
        finish(&mut sim);
        let ctx = sim.ctx;
        (Case { layer, path, single, datasets: datasets.clone(), ops }, ctx)
    }

    fn replay(&self, case: &Case, focus: &str, keep_text: bool) -> Ctx {
        let mut sim = Sim::new(case.layer, case.path, case.single, &case.datasets, focus, keep_text);
        for op in &case.ops {
            if sim.ctx.failed() {
                break;
            }
            // keep the tag counter ahead of recorded tags (only the generator uses it)
            sim.exec(op);
        }
        finish(&mut sim);
        sim.ctx
    }

    fn ops_len(&self, case: &Case) -> usize {
        case.ops.len()
    }

    fn retain_ops(&self, case: &Case, keep: &[bool]) -> Case {
        let mut c = case.clone();
        c.ops = case.ops.iter().zip(keep.iter()).filter(|(_, k)| **k).map(|(o, _)| o.clone()).collect();
        c
    }

    fn simplifications(&self, case: &Case) -> Vec<Case> {
        let mut v = Vec::new();
        if case.path == Path::Json {
            let mut c = case.clone();
            c.path = Path::Direct;
            v.push(c);
        }
        // drop unused datasets
        if case.datasets.len() > 1 && !case.single {
            for i in (0..case.datasets.len()).rev() {
                let name = &case.datasets[i].name;
                let used = case.ops.iter().any(|o| matches!(o, Op::Create { dataset, .. } if dataset == name));
                if !used {
                    let mut c = case.clone();
                    c.datasets.remove(i);
                    v.push(c);
                }
            }
        }
        // truncate trailing dates
        for (i, d) in case.datasets.iter().enumerate() {
            for keep in [1, 2, 3, d.n() / 2, d.n().saturating_sub(1)] {
                if keep >= 1 && keep < d.n() {
                    let mut c = case.clone();
                    c.datasets[i] = d.truncated(keep);
                    v.push(c);
                }
            }
        }
        v
    }
}
