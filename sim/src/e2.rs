//! Engine E2: the wire twin. Two servers are built from identical datasets; one is driven through the
//! in-process `AppState` calls, the other through the in-memory actix JSON service with every route
//! registered. The same seeded request sequence from several interleaved clients is applied to both
//! and every response, status and the resulting state are compared. Decides C20 (Uist and Jura).
//!
//! Soundness against f64 text round trips: an order is first encoded to the JSON body and the
//! *decoded* value is what the direct twin receives, so both servers hold identical numbers and a
//! one-ulp perturbation can never flip a fill on one side only; the encode/decode step itself is
//! judged by the round-trip rule.

use crate::clock::{Digest, Sched};
use crate::common::{catch, Ctx, Tier, X};
use crate::e1j_model::{JKind, JOrderSpec};
use crate::e1u_model::{OrderSpec, Typ};
use crate::engine::Engine;
use crate::rng::Rng;
use crate::server::{JuraServer, Path, Rej, UistServer};
use crate::world::{gen_dataset, DatasetSpec, WorldCfg, WorldStats};
use crate::{ev, rule};
use rotala::input::penelope::PenelopeQuoteByDate;
use serde::{de::DeserializeOwned, Deserialize, Serialize};
use serde_json::Value;
use std::collections::HashMap;

fn rel12(a: f64, b: f64) -> bool {
    a == b || (a.is_finite() && b.is_finite() && (a - b).abs() <= 1e-12 * a.abs().max(b.abs()))
}

/// Same JSON tree: identical structure, strings, integers, booleans; floats within 1e-12 relative.
fn tree_eq(a: &Value, b: &Value) -> bool {
    match (a, b) {
        (Value::Number(x), Value::Number(y)) => {
            if let (Some(i), Some(j)) = (x.as_i64(), y.as_i64()) {
                return i == j;
            }
            if let (Some(i), Some(j)) = (x.as_u64(), y.as_u64()) {
                return i == j;
            }
            match (x.as_f64(), y.as_f64()) {
                (Some(f), Some(g)) => rel12(f, g),
                _ => false,
            }
        }
        (Value::Array(x), Value::Array(y)) => x.len() == y.len() && x.iter().zip(y.iter()).all(|(p, q)| tree_eq(p, q)),
        (Value::Object(x), Value::Object(y)) => x.len() == y.len() && x.iter().all(|(k, v)| y.get(k).map_or(false, |w| tree_eq(v, w))),
        _ => a == b,
    }
}

/// Two Debug renderings describe the same value: identical text outside numbers, numbers equal within
/// 1e-12 relative. Catches a field that is silently dropped or defaulted by (de)serialisation, which a
/// comparison of the two serialised forms cannot see (both would lack it).
fn debug_eq(a: &str, b: &str) -> bool {
    fn tokens(s: &str) -> Vec<(bool, String)> {
        let mut out: Vec<(bool, String)> = Vec::new();
        let cs: Vec<char> = s.chars().collect();
        let mut i = 0;
        while i < cs.len() {
            let c = cs[i];
            let starts_num = c.is_ascii_digit() || (c == '-' && i + 1 < cs.len() && cs[i + 1].is_ascii_digit() && (i == 0 || !cs[i - 1].is_alphanumeric()));
            if starts_num && (i == 0 || !(cs[i - 1].is_alphanumeric() || cs[i - 1] == '_')) {
                let mut j = i + 1;
                while j < cs.len() && (cs[j].is_ascii_digit() || cs[j] == '.' || cs[j] == 'e' || cs[j] == 'E' || ((cs[j] == '-' || cs[j] == '+') && (cs[j - 1] == 'e' || cs[j - 1] == 'E'))) {
                    j += 1;
                }
                out.push((true, cs[i..j].iter().collect()));
                i = j;
            } else {
                match out.last_mut() {
                    Some((false, t)) => t.push(c),
                    _ => out.push((false, c.to_string())),
                }
                i += 1;
            }
        }
        out
    }
    let (ta, tb) = (tokens(a), tokens(b));
    ta.len() == tb.len()
        && ta.iter().zip(tb.iter()).all(|(x, y)| {
            if x.0 != y.0 {
                return false;
            }
            if !x.0 {
                return x.1 == y.1;
            }
            x.1 == y.1
                || match (x.1.parse::<f64>(), y.1.parse::<f64>()) {
                    (Ok(f), Ok(g)) => rel12(f, g),
                    _ => false,
                }
        })
}

/// serialise -> deserialise gives back the same value, and serialising that gives the same tree
fn round_trip<T: Serialize + DeserializeOwned + std::fmt::Debug>(x: &T) -> Result<(), String> {
    let t1 = serde_json::to_string(x).map_err(|e| format!("cannot serialise: {e}"))?;
    let v1: Value = serde_json::from_str(&t1).map_err(|e| format!("own output does not parse: {e}: {t1}"))?;
    let back: T = serde_json::from_str(&t1).map_err(|e| format!("own output does not deserialise: {e}: {t1}"))?;
    let v2 = serde_json::to_value(&back).map_err(|e| format!("cannot re-serialise: {e}"))?;
    if !tree_eq(&v1, &v2) {
        return Err(format!("{t1} came back as {v2}"));
    }
    let (d1, d2) = (format!("{:?}", x), format!("{:?}", back));
    if !debug_eq(&d1, &d2) {
        return Err(format!("{d1} came back as {d2}"));
    }
    Ok(())
}

fn quotes_eq(a: &PenelopeQuoteByDate, b: &PenelopeQuoteByDate) -> bool {
    a.len() == b.len() && a.iter().all(|(k, x)| b.get(k).map_or(false, |y| x.symbol == y.symbol && x.date == y.date && rel12(x.bid, y.bid) && rel12(x.ask, y.ask)))
}

fn status_rule(ctx: &mut Ctx, what: &str, direct_ok: bool, json: &Result<(), Rej>) {
    let js = match json {
        Ok(()) => 200,
        Err(r) => r.status,
    };
    if direct_ok {
        rule!(ctx, "C20", "status", what, js == 200, "{what}: the in-process call succeeded but the HTTP service answered {js} ({})", json.as_ref().err().map_or("", |r| r.note.as_str()));
    } else {
        rule!(ctx, "C20", "status", what, js == 400, "{what}: the in-process call reported an unknown backtest/dataset but the HTTP service answered {js}");
        ctx.bump("f5_expected_400");
    }
}

#[derive(Clone, Debug, Serialize, Deserialize)]
pub enum Op<O> {
    Init { client: u8, dataset: String },
    Insert { client: u8, bt: u64, order: O },
    Delete { client: u8, bt: u64, asset: u64, id: u64 },
    Tick { client: u8, bt: u64 },
    Fetch { client: u8, bt: u64 },
    Info { client: u8, bt: u64 },
    Now { client: u8, bt: u64 },
}

impl<O> Op<O> {
    fn ileave(&self) -> (u64, u64, u64) {
        match self {
            Op::Init { client, .. } => (*client as u64, u64::MAX, 1),
            Op::Insert { client, bt, .. } => (*client as u64, *bt, 2),
            Op::Delete { client, bt, .. } => (*client as u64, *bt, 3),
            Op::Tick { client, bt } => (*client as u64, *bt, 4),
            Op::Fetch { client, bt } => (*client as u64, *bt, 5),
            Op::Info { client, bt } => (*client as u64, *bt, 6),
            Op::Now { client, bt } => (*client as u64, *bt, 7),
        }
    }
}

#[derive(Clone, Debug, Serialize, Deserialize)]
pub struct Case<O> {
    pub single: bool,
    pub datasets: Vec<DatasetSpec>,
    pub ops: Vec<Op<O>>,
    /// also drive the shipped HTTP client (over the simulated transport) through the same history
    #[serde(default)]
    pub http_twin: bool,
}

fn gen_ops_common(rng: &mut Rng, sched: &mut Sched, bts: &[u64], n_datasets: &[String], w: &[u32; 6], bogus_p: f64) -> (u8, Option<u64>, usize, String) {
    let client = sched.next(rng);
    let dataset = if rng.chance(0.08) {
        let base = rng.pick(n_datasets).clone();
        let c = [ "nope".to_string(), base.to_uppercase(), base.to_lowercase(), format!("{base}x"), "Random".to_string() ];
        let p = rng.pick(&c).clone();
        if n_datasets.contains(&p) { "nope".to_string() } else { p }
    } else {
        rng.pick(n_datasets).clone()
    };
    let bt = if bts.is_empty() {
        None
    } else if rng.chance(bogus_p) {
        Some(*rng.pick(&[999u64, 77, u64::MAX, bts.iter().max().unwrap() + 1]))
    } else {
        Some(*rng.pick(bts))
    };
    (client, bt, rng.weighted(w), dataset)
}

fn edge_f64(rng: &mut Rng, base: f64) -> f64 {
    match rng.usize(12) {
        0 => 5e-324,
        1 => 1e-300,
        2 => 1e300,
        3 => 0.1 + 0.2,
        4 => 1.0 / 3.0,
        5 => 123456789.12345678,
        6 => base * (1.0 + rng.f64() * 1e-10),
        7 => f64::MIN_POSITIVE,
        8 => 9007199254740993.0,
        _ => base * (0.5 + rng.f64()),
    }
}

/// The answer of a client (TestClient, or the HTTP client over the simulated transport) to `op`, next to the
/// in-process twin's answer to the same op, both as canonical text.
macro_rules! twin_answers_u {
    ($me:expr, $client:expr, $op:expr) => {{
        let op = $op;
        let fmt_trades = |t: &[rotala::exchange::uist_v1::Trade]| t.iter().map(crate::e1u_model::fmt_trade).collect::<Vec<_>>().join(",");
        let fmt_orders = |o: &[rotala::exchange::uist_v1::Order]| o.iter().map(crate::e1u_model::fmt_order).collect::<Vec<_>>().join(",");
        let (mine, theirs): (String, String) = match op {
            Op::Init { dataset, .. } => (
                format!("{:?}", $me.last_direct.clone()),
                format!("{:?}", block_on($client.init(dataset.clone())).map(|r| r.backtest_id).map_err(|_| 400)),
            ),
            Op::Insert { bt, order, .. } => {
                let body = serde_json::to_string(&crate::server::UInsertReq { order: order.to_sut() }).unwrap();
                let decoded: crate::server::UInsertReq = serde_json::from_str(&body).unwrap();
                (format!("{:?}", $me.last_direct.clone()), format!("{:?}", block_on($client.insert_order(decoded.order, *bt)).map(|_| 0u64).map_err(|_| 400)))
            }
            Op::Delete { bt, id, .. } => (format!("{:?}", $me.last_direct.clone()), format!("{:?}", block_on($client.delete_order(*id, *bt)).map(|_| 0u64).map_err(|_| 400))),
            Op::Tick { bt, .. } => (
                $me.last_direct_txt.clone(),
                match block_on($client.tick(*bt)) {
                    Ok(r) => format!("has_next={} trades=[{}] admitted=[{}]", r.has_next, fmt_trades(&r.executed_trades), fmt_orders(&r.inserted_orders)),
                    Err(_) => "rejected".to_string(),
                },
            ),
            Op::Fetch { bt, .. } => (
                $me.last_direct_txt.clone(),
                match block_on($client.fetch_quotes(*bt)) {
                    Ok(r) => crate::e1u::canon_quotes(&r.quotes),
                    Err(_) => "rejected".to_string(),
                },
            ),
            Op::Info { bt, .. } => (
                $me.last_direct_txt.clone(),
                match block_on($client.info(*bt)) {
                    Ok(r) => format!("{} {}", r.version, r.dataset),
                    Err(_) => "rejected".to_string(),
                },
            ),
            Op::Now { bt, .. } => (
                $me.last_direct_txt.clone(),
                match block_on($client.now(*bt)) {
                    Ok(r) => format!("{} {}", r.now, r.has_next),
                    Err(_) => "rejected".to_string(),
                },
            ),
        };

        (mine, theirs)
    }};
}

// ================================================================================================
// Uist twin
// ================================================================================================

pub struct E2U;

struct TwinU {
    ctx: Ctx,
    direct: UistServer,
    json: UistServer,
    /// third twin: the shipped in-process client `TestClient` (it owns its AppState privately, so only
    /// its answers can be compared; it can only be built with `single`)
    tc: Option<rotala::http::uist::uistv1_client::TestClient>,
    /// fourth twin: the shipped HTTP client over the simulated transport (only when every dataset name is
    /// one the client can put into a URL as it stands: it does not percent-encode)
    #[cfg(shadow_http)]
    hc: Option<HttpTwinU>,
    bts: Vec<u64>,
    next_tag: u64,
    /// the direct twin's answer to the current op: Ok(id or 0) / Err(400), and a canonical text
    last_direct: Result<u64, i32>,
    last_direct_txt: String,
}

fn digest_u(s: &UistServer) -> u64 {
    s.with_state(|st| {
        let mut ids: Vec<&u64> = st.backtests.keys().collect();
        ids.sort();
        let mut d = Digest::new();
        d.u(st.last).u(ids.len() as u64);
        for id in ids {
            let b = &st.backtests[id];
            d.u(b.id).i(b.date).u(b.pos as u64).s(&b.dataset_name).u(crate::e1u::snapshot_digest(&b.exchange.verif_snapshot()));
        }
        d.0
    })
}

fn build_u(single: bool, datasets: &[DatasetSpec], path: Path) -> UistServer {
    use rotala::http::uist::AppState;
    let state = if single {
        AppState::single(&datasets[0].name, datasets[0].build())
    } else {
        let mut m = HashMap::new();
        for d in datasets {
            m.insert(d.name.clone(), d.build());
        }
        AppState::create(&mut m)
    };
    UistServer::new(state, path)
}

/// Equality of two canonical texts up to 1e-12 relative on the decimal numbers in them.
fn texts_close(a: &str, b: &str) -> bool {
    fn tokens(s: &str) -> Vec<(bool, &str)> {
        let bytes = s.as_bytes();
        let mut out = Vec::new();
        let mut i = 0;
        let mut text_start = 0;
        while i < bytes.len() {
            let c = bytes[i];
            let starts_number = c.is_ascii_digit() || (c == b'-' && i + 1 < bytes.len() && bytes[i + 1].is_ascii_digit() && (i == 0 || !bytes[i - 1].is_ascii_alphanumeric()));
            if starts_number && (i == 0 || !(bytes[i - 1].is_ascii_alphabetic() || bytes[i - 1] == b'_')) {
                let start = i;
                i += 1;
                while i < bytes.len() && (bytes[i].is_ascii_digit() || bytes[i] == b'.' || bytes[i] == b'e' || bytes[i] == b'E' || ((bytes[i] == b'-' || bytes[i] == b'+') && (bytes[i - 1] == b'e' || bytes[i - 1] == b'E'))) {
                    i += 1;
                }
                if text_start < start {
                    out.push((false, &s[text_start..start]));
                }
                out.push((true, &s[start..i]));
                text_start = i;
            } else {
                i += 1;
            }
        }
        if text_start < s.len() {
            out.push((false, &s[text_start..]));
        }
        out
    }
    if a == b {
        return true;
    }
    let (ta, tb) = (tokens(a), tokens(b));
    ta.len() == tb.len()
        && ta.iter().zip(tb.iter()).all(|(x, y)| {
            if x.0 != y.0 {
                return false;
            }
            if !x.0 {
                return x.1 == y.1;
            }
            match (x.1.parse::<f64>(), y.1.parse::<f64>()) {
                (Ok(p), Ok(q)) => p == q || (p - q).abs() <= 1e-12 * p.abs().max(q.abs()),
                _ => x.1 == y.1,
            }
        })
}

/// The state, the real handlers (shadow copy) as an in-memory service, and the real HTTP client talking to
/// them through the simulated transport.
#[cfg(shadow_http)]
struct HttpTwinU {
    client: crate::threads::shadow_uist::uistv1_client::Client,
    data: actix_web::web::Data<crate::threads::shadow_uist::uistv1_server::UistState>,
}

#[cfg(shadow_http)]
impl Drop for HttpTwinU {
    fn drop(&mut self) {
        // the service must not outlive the run (it must not be destroyed by thread-local teardown)
        crate::simhttp::uninstall();
    }
}

#[cfg(shadow_http)]
fn url_safe(name: &str) -> bool {
    url::Url::parse(&format!("http://sim/init/{name}")).map_or(false, |u| u.path() == format!("/init/{name}") && u.query().is_none() && u.fragment().is_none())
}

#[cfg(shadow_http)]
impl HttpTwinU {
    fn new(single: bool, datasets: &[DatasetSpec]) -> Option<Self> {
        use crate::threads::shadow_uist as su;
        crate::simhttp::uninstall();
        let _ = crate::simhttp::take_log();
        if !datasets.iter().all(|d| url_safe(&d.name)) {
            return None;
        }
        let state = if single {
            su::AppState::single(&datasets[0].name, datasets[0].build())
        } else {
            let mut m = HashMap::new();
            for d in datasets {
                m.insert(d.name.clone(), d.build());
            }
            su::AppState::create(&mut m)
        };
        let mut t = HttpTwinU { client: su::uistv1_client::Client::new("http://sim".to_string()), data: actix_web::web::Data::new(<su::uistv1_server::UistState as crate::threads::shim::Peek<su::AppState>>::make(state)) };
        // one service per run; it stays installed for this thread until the next run installs its own
        t.install();
        Some(t)
    }

    /// Route the calling thread's simulated HTTP requests to the real handlers over this twin's state.
    fn install(&mut self) {
        use crate::exec::block_on;
        use crate::threads::shadow_uist as su;
        use actix_web::test::{self, TestRequest};
        let app = block_on(test::init_service(
            actix_web::App::new()
                .app_data(self.data.clone())
                .service(su::uistv1_server::info)
                .service(su::uistv1_server::init)
                .service(su::uistv1_server::fetch_quotes)
                .service(su::uistv1_server::tick)
                .service(su::uistv1_server::insert_order)
                .service(su::uistv1_server::delete_order)
                .service(su::uistv1_server::now),
        ));
        crate::simhttp::install(Box::new(move |method, target, body| {
            let mut req = if method == "POST" { TestRequest::post() } else { TestRequest::get() }.uri(target);
            if let Some(b) = body {
                req = req.insert_header(("content-type", "application/json")).set_payload(b);
            }
            match block_on(test::try_call_service(&app, req.to_request())) {
                Ok(resp) => {
                    let status = resp.status().as_u16();
                    let body = block_on(test::read_body(resp));
                    (status, body.to_vec())
                }
                Err(e) => (e.as_response_error().status_code().as_u16(), format!("{e}").into_bytes()),
            }
        }));
    }
}

impl TwinU {
    fn new(case: &Case<OrderSpec>, focus: &str, keep_text: bool) -> Self {
        TwinU {
            ctx: Ctx::new(focus, keep_text),
            direct: build_u(case.single, &case.datasets, Path::Direct),
            json: build_u(case.single, &case.datasets, Path::Json),
            tc: if case.single { Some(rotala::http::uist::uistv1_client::TestClient::single(&case.datasets[0].name, case.datasets[0].build())) } else { None },
            #[cfg(shadow_http)]
            hc: if case.http_twin { HttpTwinU::new(case.single, &case.datasets) } else { None },
            bts: if case.single { vec![0] } else { vec![] },
            next_tag: 1,
            last_direct: Ok(0),
            last_direct_txt: String::new(),
        }
    }

    /// The same request through `TestClient`; its answer must be the in-process answer.
    fn test_client_twin(&mut self, op: &Op<OrderSpec>) {
        use crate::exec::block_on;
        use rotala::http::uist::uistv1_client::UistClient;
        if self.tc.is_none() {
            return;
        }
        let mut tc = self.tc.take().unwrap();
        let (mine, theirs) = twin_answers_u!(self, tc, op);
        self.tc = Some(tc);
        self.ctx.bump("probe_testclient_twin_requests");
        self.judge_twin("TestClient", "testclient-diverges", op, mine, theirs);
    }

    /// The same request through the shipped HTTP client `uistv1_client::Client` (shadow copy: its reqwest
    /// transport is the simulated one) against the real handlers over its own state.
    #[cfg(shadow_http)]
    fn http_client_twin(&mut self, op: &Op<OrderSpec>) {
        use crate::exec::block_on;
        use crate::threads::shadow_uist::uistv1_client::UistClient;
        if self.hc.is_none() {
            return;
        }
        let mut hc = self.hc.take().unwrap();
        let (mine, theirs) = twin_answers_u!(self, hc.client, op);
        for l in crate::simhttp::take_log() {
            ev!(self.ctx, "http-client {l}");
        }
        self.hc = Some(hc);
        self.ctx.bump("probe_http_client_twin_requests");
        self.judge_twin("the HTTP client (uistv1_client::Client over the real handlers)", "http-client-diverges", op, mine, theirs);
    }

    fn judge_twin(&mut self, who: &str, rule: &str, op: &Op<OrderSpec>, mine: String, theirs: String) {
        let what = match op {
            Op::Init { .. } => "init",
            Op::Insert { .. } => "insert_order",
            Op::Delete { .. } => "delete_order",
            Op::Tick { .. } => "tick",
            Op::Fetch { .. } => "fetch_quotes",
            Op::Info { .. } => "info",
            Op::Now { .. } => "now",
        };
        // through JSON text floats may move in the last place: C20 allows 1e-12 relative
        let same = if rule == "http-client-diverges" { texts_close(&mine, &theirs) } else { mine == theirs };
        if !same {
            let msg = format!("{who} answered {what} differently from the in-process AppState after the same history: AppState {mine}, {who} {theirs} (op {:?})", op);
            self.ctx.fail("C20", rule, what, msg.clone());
            self.ctx.fail("C08", rule, what, msg);
        }
    }

    fn exec(&mut self, op: &Op<OrderSpec>) {
        self.ctx.ops += 1;
        let (c, b, k) = op.ileave();
        self.ctx.ileave(c, b, k);
        if let Err(p) = catch(|| self.exec_inner(op)) {
            ev!(self.ctx, "PANIC {p}");
            self.ctx.fail("C20", "sut-panic", "uist", format!("SUT panicked during {:?}: {p}", op));
        }
    }

    fn exec_inner(&mut self, op: &Op<OrderSpec>) {
        use rotala::exchange::uist_v1::{Order, Trade};
        match op {
            Op::Init { dataset, .. } => {
                let d = self.direct.init(dataset);
                self.last_direct = d.as_ref().map(|x| *x).map_err(|_| 400);
                let j = self.json.init(dataset);
                ev!(self.ctx, "init {dataset} -> direct {:?} json {:?}", d.as_ref().map_err(|e| e.status), j.as_ref().map_err(|e| e.status));
                status_rule(&mut self.ctx, "init", d.is_ok(), &j.as_ref().map(|_| ()).map_err(|e| e.clone()));
                if let (Ok(a), Ok(b)) = (&d, &j) {
                    rule!(self.ctx, "C20", "body", "init", a == b, "init: in-process id {a}, HTTP id {b}");
                    self.bts.push(*a);
                }
            }
            Op::Insert { bt, order, .. } => {
                let sut_order = order.to_sut();
                let req = crate::server::UInsertReq { order: sut_order };
                let body = serde_json::to_string(&req).expect("harness: order serialises");
                if let Err(e) = round_trip(&req.order) {
                    self.ctx.fail("C20", "round-trip", "order", format!("Order does not survive serialise/deserialise: {e}"));
                }
                // the decoded order is what the direct twin receives
                let decoded: crate::server::UInsertReq = match serde_json::from_str(&body) {
                    Ok(x) => x,
                    Err(e) => {
                        self.ctx.fail("C20", "round-trip", "order", format!("insert body does not decode: {e}: {body}"));
                        return;
                    }
                };
                let d = self.direct.insert(&decoded.order, *bt);
                self.last_direct = d.as_ref().map(|_| 0).map_err(|_| 400);
                let j = self.json.insert_raw(&body, *bt);
                ev!(self.ctx, "insert bt={bt} {body} -> direct {:?} json {:?}", d.as_ref().map_err(|e| e.status), j.as_ref().map_err(|e| e.status));
                status_rule(&mut self.ctx, "insert_order", d.is_ok(), &j);
            }
            Op::Delete { bt, id, .. } => {
                let d = self.direct.delete(*id, *bt);
                self.last_direct = d.as_ref().map(|_| 0).map_err(|_| 400);
                let j = self.json.delete(*id, *bt);
                ev!(self.ctx, "delete bt={bt} id={id} -> direct {:?} json {:?}", d.as_ref().map_err(|e| e.status), j.as_ref().map_err(|e| e.status));
                status_rule(&mut self.ctx, "delete_order", d.is_ok(), &j);
            }
            Op::Tick { bt, .. } => {
                let d = self.direct.tick(*bt);
                self.last_direct_txt = match &d {
                    Ok(r) => format!(
                        "has_next={} trades=[{}] admitted=[{}]", r.has_next,
                        r.executed_trades.iter().map(crate::e1u_model::fmt_trade).collect::<Vec<_>>().join(","),
                        r.inserted_orders.iter().map(crate::e1u_model::fmt_order).collect::<Vec<_>>().join(",")
                    ),
                    Err(_) => "rejected".to_string(),
                };
                let j = self.json.tick(*bt);
                ev!(
                    self.ctx, "tick bt={bt} -> direct {:?} json {:?}",
                    d.as_ref().map(|r| (r.has_next, r.executed_trades.len(), r.inserted_orders.len())).map_err(|e| e.status),
                    j.as_ref().map(|r| (r.has_next, r.executed_trades.len(), r.inserted_orders.len())).map_err(|e| e.status)
                );
                status_rule(&mut self.ctx, "tick", d.is_ok(), &j.as_ref().map(|_| ()).map_err(|e| e.clone()));
                if let (Ok(a), Ok(b)) = (&d, &j) {
                    let trade_eq = |x: &Trade, y: &Trade| x.symbol == y.symbol && x.date == y.date && x.typ == y.typ && rel12(x.value, y.value) && rel12(x.quantity, y.quantity);
                    let order_eq = |x: &Order, y: &Order| {
                        x.order_id == y.order_id
                            && x.order_type == y.order_type
                            && x.symbol == y.symbol
                            && rel12(x.shares, y.shares)
                            && match (x.price, y.price) {
                                (None, None) => true,
                                (Some(p), Some(q)) => rel12(p, q),
                                _ => false,
                            }
                    };
                    let ok = a.has_next == b.has_next
                        && a.executed_trades.len() == b.executed_trades.len()
                        && a.executed_trades.iter().zip(b.executed_trades.iter()).all(|(x, y)| trade_eq(x, y))
                        && a.inserted_orders.len() == b.inserted_orders.len()
                        && a.inserted_orders.iter().zip(b.inserted_orders.iter()).all(|(x, y)| order_eq(x, y));
                    rule!(
                        self.ctx, "C20", "body", "tick", ok,
                        "tick: in-process (has_next {}, trades {:?}, admitted {:?}) vs HTTP (has_next {}, trades {:?}, admitted {:?})",
                        a.has_next, a.executed_trades, a.inserted_orders, b.has_next, b.executed_trades, b.inserted_orders
                    );
                    for t in &a.executed_trades {
                        if let Err(e) = round_trip(t) {
                            self.ctx.fail("C20", "round-trip", "trade", format!("Trade does not survive serialise/deserialise: {e}"));
                        }
                    }
                    if !a.executed_trades.is_empty() {
                        self.ctx.nontrivial = true;
                        self.ctx.add("fills_compared", a.executed_trades.len() as u64);
                    }
                    self.ctx.sim_ticks += 1;
                }
            }
            Op::Fetch { bt, .. } => {
                let d = self.direct.fetch(*bt);
                self.last_direct_txt = d.as_ref().map_or("rejected".to_string(), |q| crate::e1u::canon_quotes(&q.quotes));
                let j = self.json.fetch(*bt);
                ev!(self.ctx, "fetch bt={bt} -> direct {:?} json {:?}", d.as_ref().map(|q| q.quotes.len()).map_err(|e| e.status), j.as_ref().map(|q| q.quotes.len()).map_err(|e| e.status));
                status_rule(&mut self.ctx, "fetch_quotes", d.is_ok(), &j.as_ref().map(|_| ()).map_err(|e| e.clone()));
                if let (Ok(a), Ok(b)) = (&d, &j) {
                    rule!(self.ctx, "C20", "body", "fetch_quotes", quotes_eq(&a.quotes, &b.quotes), "fetch_quotes: in-process {} vs HTTP {}", crate::e1u::canon_quotes(&a.quotes), crate::e1u::canon_quotes(&b.quotes));
                    for q in a.quotes.values() {
                        if let Err(e) = round_trip(q) {
                            self.ctx.fail("C20", "round-trip", "quote", format!("quote does not survive serialise/deserialise: {e}"));
                        }
                    }
                }
            }
            Op::Info { bt, .. } => {
                let d = self.direct.info(*bt);
                self.last_direct_txt = d.as_ref().map_or("rejected".to_string(), |i| format!("{} {}", i.version, i.dataset));
                let j = self.json.info(*bt);
                ev!(self.ctx, "info bt={bt} -> direct {:?} json {:?}", d.as_ref().map(|i| i.dataset.clone()).map_err(|e| e.status), j.as_ref().map(|i| i.dataset.clone()).map_err(|e| e.status));
                status_rule(&mut self.ctx, "info", d.is_ok(), &j.as_ref().map(|_| ()).map_err(|e| e.clone()));
                if let (Ok(a), Ok(b)) = (&d, &j) {
                    rule!(self.ctx, "C20", "body", "info", a.version == b.version && a.dataset == b.dataset, "info: in-process ({}, {}) vs HTTP ({}, {})", a.version, a.dataset, b.version, b.dataset);
                }
            }
            Op::Now { bt, .. } => {
                // in-process reference: what TestClient::now computes from the public state
                let d = self.direct.now(*bt);
                self.last_direct_txt = d.as_ref().map_or("rejected".to_string(), |n| format!("{} {}", n.now, n.has_next));
                let j = self.json.now(*bt);
                ev!(self.ctx, "now bt={bt} -> direct {:?} json {:?}", d.as_ref().map(|n| (n.now, n.has_next)).map_err(|e| e.status), j.as_ref().map(|n| (n.now, n.has_next)).map_err(|e| e.status));
                status_rule(&mut self.ctx, "now", d.is_ok(), &j.as_ref().map(|_| ()).map_err(|e| e.clone()));
                if let (Ok(a), Ok(b)) = (&d, &j) {
                    rule!(self.ctx, "C20", "body", "now", a.now == b.now && a.has_next == b.has_next, "now: in-process ({}, {}) vs HTTP ({}, {})", a.now, a.has_next, b.now, b.has_next);
                }
            }
        }
        self.test_client_twin(op);
        #[cfg(shadow_http)]
        self.http_client_twin(op);
        // both servers must be in the same state after every request (rejected ones change nothing)
        let (a, b) = (digest_u(&self.direct), digest_u(&self.json));
        rule!(self.ctx, "C20", "state-diverged", "uist", a == b, "after {:?} the state behind the HTTP service differs from the in-process twin", op);
        let abs = self.direct.with_state(|st| {
            let mut d = Digest::new();
            d.u(st.backtests.len().min(5) as u64);
            let (mut book, mut buf) = (0usize, 0usize);
            for b in st.backtests.values() {
                let sn = b.exchange.verif_snapshot();
                book += sn.book.len();
                buf += sn.buffer.len();
            }
            d.u(book.min(8) as u64).u(buf.min(4) as u64).u(op.ileave().2);
            d.0
        });
        self.ctx.state(abs);
    }
}

fn gen_uist_order(rng: &mut Rng, ds: &DatasetSpec, k: usize, tag: u64, edge_p: f64) -> OrderSpec {
    let exotic = ["ABC", "ÜNI✓", "a b", "\"quoted\"", "new\nline", "LONGSYMBOL_0123456789_0123456789_0123456789_0123456789", ""];
    let symbol = if rng.chance(0.05) { (*rng.pick(&exotic)).to_string() } else { rng.pick(&ds.symbols).clone() };
    let typ = *rng.pick(&Typ::ALL);
    let mut shares = if rng.one_in(8) { tag as f64 + 0.5 } else { tag as f64 };
    let mut price = if typ.is_market() { None } else { Some(crate::e1u::price_near(rng, ds, &symbol, k + 1)) };
    if rng.chance(edge_p) {
        if rng.one_in(2) {
            shares = match rng.usize(5) {
                0 => 0.0,
                1 => -0.0,
                2 => 1e300,
                3 => 5e-324,
                _ => edge_f64(rng, shares),
            };
        } else if let Some(p) = price {
            price = Some(edge_f64(rng, p).min(1e7));
        }
    }
    // keep price x shares finite: JSON has no infinity
    if let Some(p) = price {
        if !(p * shares).is_finite() {
            shares = tag as f64;
        }
    }
    let preset_id = if rng.one_in(10) { Some(rng.below(1000)) } else { None };
    OrderSpec { typ, symbol, shares: X(shares), price: price.map(X), preset_id }
}

impl Engine for E2U {
    type Case = Case<OrderSpec>;

    fn name(&self) -> &'static str {
        "e2-uist-twin"
    }

    fn generate(&self, seed: u64, focus: &str, tier: Tier, keep_text: bool) -> (Self::Case, Ctx) {
        let root = Rng::new(seed);
        let mut w = root.fork("world");
        let mut cfg = WorldCfg::exchange(false);
        if crate::common::long_run(seed, tier) {
            cfg.n_min = 50;
            cfg.n_max = 300;
        } else if tier == Tier::Thorough {
            cfg.n_max = 40;
        }
        let single = w.one_in(3);
        let nds = if single { 1 } else { w.range(1, 3) as usize };
        let mut st = WorldStats::default();
        let names = ["fake", "Fake", "BTC/USDT+100% ü"]; // case twins; a name that must be percent-encoded in a URL
        let datasets: Vec<DatasetSpec> = (0..nds).map(|i| gen_dataset(&mut w, names[i], &cfg, &mut st)).collect();
        let mut c = root.fork("cfg");
        let max_ops = if crate::common::long_run(seed, tier) { if tier == Tier::Thorough { c.range(300, 1200) as usize } else { c.range(200, 500) as usize } } else if tier == Tier::Thorough { c.range(20, 300) as usize } else { c.range(10, 60) as usize };
        let weights: [u32; 6] = [*c.pick(&[30, 45]), *c.pick(&[5, 10]), *c.pick(&[20, 30]), *c.pick(&[5, 10]), *c.pick(&[2, 5]), *c.pick(&[3, 8])];
        let bogus_p = *c.pick(&[0.02, 0.05, 0.15]);
        let edge_p = *c.pick(&[0.0, 0.1, 0.4]);
        let n_clients = c.range(1, 4) as usize;
        let mut sched = Sched::new(&mut root.fork("sched"), n_clients);
        let mut rng = root.fork("ops");
        let mut case = Case { single, datasets: datasets.clone(), ops: Vec::new(), http_twin: root.fork("http-twin").one_in(3) };
        let mut tw = TwinU::new(&case, focus, keep_text);
        tw.ctx.add("f1_quote_gaps_in_world", st.gaps);
        let ds_names: Vec<String> = datasets.iter().map(|d| d.name.clone()).collect();
        let mut ticks: HashMap<u64, usize> = HashMap::new();
        for i in 0..max_ops {
            if tw.ctx.failed() {
                break;
            }
            let (client, bt, kind, dataset) = gen_ops_common(&mut rng, &mut sched, &tw.bts, &ds_names, &weights, bogus_p);
            let op = match (bt, kind) {
                (None, _) => Op::Init { client, dataset },
                (Some(_), _) if i > 0 && rng.chance(0.04) && tw.bts.len() < 5 => Op::Init { client, dataset },
                (Some(bt), 0) => {
                    let di = tw.direct.with_state(|s| s.backtests.get(&bt).map(|b| b.dataset_name.clone())).and_then(|n| datasets.iter().position(|d| d.name == n)).unwrap_or(0);
                    let k = *ticks.get(&bt).unwrap_or(&0);
                    let tag = tw.next_tag;
                    tw.next_tag += 1;
                    if rng.chance(edge_p) {
                        tw.ctx.bump("f13_json_edge_values");
                    }
                    Op::Insert { client, bt, order: gen_uist_order(&mut rng, &datasets[di], k, tag, edge_p) }
                }
                (Some(bt), 1) => {
                    let ids: Vec<u64> = tw.direct.with_state(|s| s.backtests.get(&bt).map(|b| b.exchange.verif_snapshot().book.iter().filter_map(|o| o.order_id).collect()).unwrap_or_default());
                    let id = if !ids.is_empty() && !rng.one_in(3) { *rng.pick(&ids) } else { rng.below(60) };
                    Op::Delete { client, bt, asset: 0, id }
                }
                (Some(bt), 2) => {
                    *ticks.entry(bt).or_insert(0) += 1;
                    Op::Tick { client, bt }
                }
                (Some(bt), 3) => Op::Fetch { client, bt },
                (Some(bt), 4) => Op::Info { client, bt },
                (Some(bt), _) => Op::Now { client, bt },
            };
            tw.exec(&op);
            case.ops.push(op);
        }
        tw.ctx.sim_span = 0;
        (case, tw.ctx)
    }

    fn replay(&self, case: &Self::Case, focus: &str, keep_text: bool) -> Ctx {
        let mut tw = TwinU::new(case, focus, keep_text);
        for op in &case.ops {
            if tw.ctx.failed() {
                break;
            }
            tw.exec(op);
        }
        tw.ctx
    }

    fn ops_len(&self, case: &Self::Case) -> usize {
        case.ops.len()
    }

    fn retain_ops(&self, case: &Self::Case, keep: &[bool]) -> Self::Case {
        let mut c = case.clone();
        c.ops = case.ops.iter().zip(keep.iter()).filter(|(_, k)| **k).map(|(o, _)| o.clone()).collect();
        c
    }

    fn simplifications(&self, case: &Self::Case) -> Vec<Self::Case> {
        let mut v = Vec::new();
        for (i, d) in case.datasets.iter().enumerate() {
            for keep in [1, 2, 3, d.n() / 2] {
                if keep >= 1 && keep < d.n() {
                    let mut c = case.clone();
                    c.datasets[i] = d.truncated(keep);
                    v.push(c);
                }
            }
        }
        v
    }
}

// ================================================================================================
// Jura twin
// ================================================================================================

pub struct E2J;

struct TwinJ {
    ctx: Ctx,
    direct: JuraServer,
    json: JuraServer,
    /// third twin: the shipped HTTP client `jurav1_client::Client` over the simulated transport
    #[cfg(shadow_http)]
    hc: Option<HttpTwinJ>,
    bts: Vec<u64>,
    next_tag: u64,
}

#[cfg(shadow_http)]
struct HttpTwinJ {
    client: crate::threads::shadow_jura::jurav1_client::Client,
    data: actix_web::web::Data<crate::threads::shadow_jura::jurav1_server::JuraState>,
}

#[cfg(shadow_http)]
impl Drop for HttpTwinJ {
    fn drop(&mut self) {
        crate::simhttp::uninstall();
    }
}

#[cfg(shadow_http)]
impl HttpTwinJ {
    fn new(single: bool, datasets: &[DatasetSpec]) -> Option<Self> {
        use crate::threads::shadow_jura as sj;
        crate::simhttp::uninstall();
        let _ = crate::simhttp::take_log();
        if !datasets.iter().all(|d| url_safe(&d.name)) {
            return None;
        }
        let state = if single {
            sj::AppState::single(&datasets[0].name, datasets[0].build())
        } else {
            let mut m = HashMap::new();
            for d in datasets {
                m.insert(d.name.clone(), d.build());
            }
            sj::AppState::create(&mut m)
        };
        let mut t = HttpTwinJ { client: sj::jurav1_client::Client::new("http://sim".to_string()), data: actix_web::web::Data::new(<sj::jurav1_server::JuraState as crate::threads::shim::Peek<sj::AppState>>::make(state)) };
        t.install();
        Some(t)
    }

    fn install(&mut self) {
        use crate::exec::block_on;
        use crate::threads::shadow_jura as sj;
        use actix_web::test::{self, TestRequest};
        let app = block_on(test::init_service(
            actix_web::App::new()
                .app_data(self.data.clone())
                .service(sj::jurav1_server::info)
                .service(sj::jurav1_server::init)
                .service(sj::jurav1_server::fetch_quotes)
                .service(sj::jurav1_server::tick)
                .service(sj::jurav1_server::insert_order)
                .service(sj::jurav1_server::delete_order),
        ));
        crate::simhttp::install(Box::new(move |method, target, body| {
            let mut req = if method == "POST" { TestRequest::post() } else { TestRequest::get() }.uri(target);
            if let Some(b) = body {
                req = req.insert_header(("content-type", "application/json")).set_payload(b);
            }
            match block_on(test::try_call_service(&app, req.to_request())) {
                Ok(resp) => {
                    let status = resp.status().as_u16();
                    let body = block_on(test::read_body(resp));
                    (status, body.to_vec())
                }
                Err(e) => (e.as_response_error().status_code().as_u16(), format!("{e}").into_bytes()),
            }
        }));
    }
}

fn j_tick_text(has_next: bool, fills: &[rotala::exchange::jura_v1::Fill], orders: &[rotala::exchange::jura_v1::Order]) -> String {
    format!(
        "has_next={has_next} fills=[{}] admitted=[{}]",
        fills.iter().map(crate::e1j_model::fmt_fill).collect::<Vec<_>>().join(","),
        orders.iter().map(|o| crate::e1j_model::fmt_view(&o.verif_view())).collect::<Vec<_>>().join(",")
    )
}

fn digest_j(s: &JuraServer) -> u64 {
    s.with_state(|st| {
        let mut ids: Vec<&u64> = st.backtests.keys().collect();
        ids.sort();
        let mut d = Digest::new();
        d.u(st.last).u(ids.len() as u64);
        for id in ids {
            let b = &st.backtests[id];
            d.u(b.id).i(b.date).u(b.pos as u64).s(&b.dataset_name).u(crate::e1j::snapshot_digest(&b.exchange.verif_snapshot()));
        }
        d.0
    })
}

fn build_j(single: bool, datasets: &[DatasetSpec], path: Path) -> JuraServer {
    use rotala::http::jura::AppState;
    let state = if single {
        AppState::single(&datasets[0].name, datasets[0].build())
    } else {
        let mut m = HashMap::new();
        for d in datasets {
            m.insert(d.name.clone(), d.build());
        }
        AppState::create(&mut m)
    };
    JuraServer::new(state, path)
}

impl TwinJ {
    fn new(case: &Case<JOrderSpec>, focus: &str, keep_text: bool) -> Self {
        TwinJ {
            ctx: Ctx::new(focus, keep_text),
            direct: build_j(case.single, &case.datasets, Path::Direct),
            json: build_j(case.single, &case.datasets, Path::Json),
            #[cfg(shadow_http)]
            hc: if case.http_twin { HttpTwinJ::new(case.single, &case.datasets) } else { None },
            bts: if case.single { vec![0] } else { vec![] },
            next_tag: 1,
        }
    }

    /// The same request through the shipped HTTP client (real URL formats, bodies, decoding; simulated
    /// transport) against the real handlers over its own state: its answer must be the in-process answer.
    #[cfg(shadow_http)]
    fn http_client_twin(&mut self, op: &Op<JOrderSpec>, mine: String) {
        use crate::exec::block_on;
        use crate::threads::shadow_jura::jurav1_client::JuraClient;
        let Some(mut hc) = self.hc.take() else { return };
        let c = &mut hc.client;
        let (what, theirs): (&str, String) = match op {
            Op::Init { dataset, .. } => ("init", format!("{:?}", block_on(c.init(dataset.clone())).map(|r| r.backtest_id).map_err(|_| 400))),
            Op::Insert { bt, order, .. } => ("insert_order", if block_on(c.insert_order(order.to_sut(), *bt)).is_ok() { "Ok" } else { "rejected" }.to_string()),
            Op::Delete { bt, asset, id, .. } => ("delete_order", if block_on(c.delete_order(*asset, *id, *bt)).is_ok() { "Ok" } else { "rejected" }.to_string()),
            Op::Tick { bt, .. } => ("tick", match block_on(c.tick(*bt)) {
                Ok(r) => j_tick_text(r.has_next, &r.executed_trades, &r.inserted_orders),
                Err(_) => "rejected".to_string(),
            }),
            Op::Fetch { bt, .. } => ("fetch_quotes", match block_on(c.fetch_quotes(*bt)) {
                Ok(r) => crate::e1j::canon_quotes(&r.quotes),
                Err(_) => "rejected".to_string(),
            }),
            Op::Info { bt, .. } => ("info", match block_on(c.info(*bt)) {
                Ok(r) => format!("{} {}", r.version, r.dataset),
                Err(_) => "rejected".to_string(),
            }),
            Op::Now { .. } => ("now", mine.clone()),
        };
        for l in crate::simhttp::take_log() {
            ev!(self.ctx, "http-client {l}");
        }
        self.hc = Some(hc);
        self.ctx.bump("probe_http_client_twin_requests");
        if !texts_close(&mine, &theirs) {
            let msg = format!("the HTTP client (jurav1_client::Client over the real handlers) answered {what} differently from the in-process AppState after the same history: AppState {mine}, client {theirs} (op {:?})", op);
            self.ctx.fail("C20", "http-client-diverges", what, msg.clone());
            self.ctx.fail("C08", "http-client-diverges", what, msg);
        }
    }

    fn exec(&mut self, op: &Op<JOrderSpec>) {
        self.ctx.ops += 1;
        let (c, b, k) = op.ileave();
        self.ctx.ileave(c, b, k);
        if let Err(p) = catch(|| self.exec_inner(op)) {
            ev!(self.ctx, "PANIC {p}");
            self.ctx.fail("C20", "sut-panic", "jura", format!("SUT panicked during {:?}: {p}", op));
        }
    }

    fn exec_inner(&mut self, op: &Op<JOrderSpec>) {
        use rotala::exchange::jura_v1::Fill;
        match op {
            Op::Init { dataset, .. } => {
                let d = self.direct.init(dataset);
                let j = self.json.init(dataset);
                ev!(self.ctx, "init {dataset} -> direct {:?} json {:?}", d.as_ref().map_err(|e| e.status), j.as_ref().map_err(|e| e.status));
                status_rule(&mut self.ctx, "init", d.is_ok(), &j.as_ref().map(|_| ()).map_err(|e| e.clone()));
                if let (Ok(a), Ok(b)) = (&d, &j) {
                    rule!(self.ctx, "C20", "body", "init", a == b, "init: in-process id {a}, HTTP id {b}");
                    self.bts.push(*a);
                }
                #[cfg(shadow_http)]
                self.http_client_twin(op, format!("{:?}", d.as_ref().map(|x| *x).map_err(|_| 400)));
            }
            Op::Insert { bt, order, .. } => {
                let req = crate::server::JInsertReq { order: order.to_sut() };
                let body = serde_json::to_string(&req).expect("harness: order serialises");
                if let Err(e) = round_trip(&req.order) {
                    self.ctx.fail("C20", "round-trip", "order", format!("Jura Order does not survive serialise/deserialise: {e}"));
                }
                let decoded: crate::server::JInsertReq = match serde_json::from_str(&body) {
                    Ok(x) => x,
                    Err(e) => {
                        self.ctx.fail("C20", "round-trip", "order", format!("insert body does not decode: {e}: {body}"));
                        return;
                    }
                };
                let d = self.direct.insert(&decoded.order, *bt);
                let j = self.json.insert_raw(&body, *bt);
                ev!(self.ctx, "insert bt={bt} {body} -> direct {:?} json {:?}", d.as_ref().map_err(|e| e.status), j.as_ref().map_err(|e| e.status));
                status_rule(&mut self.ctx, "insert_order", d.is_ok(), &j);
                #[cfg(shadow_http)]
                self.http_client_twin(op, if d.is_ok() { "Ok" } else { "rejected" }.to_string());
            }
            Op::Delete { bt, asset, id, .. } => {
                let d = self.direct.delete(*asset, *id, *bt);
                let j = self.json.delete(*asset, *id, *bt);
                ev!(self.ctx, "delete bt={bt} asset={asset} id={id} -> direct {:?} json {:?}", d.as_ref().map_err(|e| e.status), j.as_ref().map_err(|e| e.status));
                status_rule(&mut self.ctx, "delete_order", d.is_ok(), &j);
                #[cfg(shadow_http)]
                self.http_client_twin(op, if d.is_ok() { "Ok" } else { "rejected" }.to_string());
            }
            Op::Tick { bt, .. } => {
                let d = self.direct.tick(*bt);
                let j = self.json.tick(*bt);
                #[cfg(shadow_http)]
                self.http_client_twin(op, match &d {
                    Ok(r) => j_tick_text(r.has_next, &r.fills, &r.orders),
                    Err(_) => "rejected".to_string(),
                });
                ev!(
                    self.ctx, "tick bt={bt} -> direct {:?} json {:?}",
                    d.as_ref().map(|r| (r.has_next, r.fills.len(), r.orders.len())).map_err(|e| e.status),
                    j.as_ref().map(|r| (r.has_next, r.fills.len(), r.orders.len())).map_err(|e| e.status)
                );
                status_rule(&mut self.ctx, "tick", d.is_ok(), &j.as_ref().map(|_| ()).map_err(|e| e.clone()));
                if let (Ok(a), Ok(b)) = (&d, &j) {
                    let fill_eq = |x: &Fill, y: &Fill| {
                        x.closed_pnl == y.closed_pnl && x.coin == y.coin && x.crossed == y.crossed && x.dir == y.dir && x.hash == y.hash && x.oid == y.oid && x.px == y.px && x.side == y.side && x.start_position == y.start_position && x.sz == y.sz && x.time == y.time
                    };
                    let ok = a.has_next == b.has_next
                        && a.fills.len() == b.fills.len()
                        && a.fills.iter().zip(b.fills.iter()).all(|(x, y)| fill_eq(x, y))
                        && a.orders.len() == b.orders.len()
                        && a.orders.iter().zip(b.orders.iter()).all(|(x, y)| crate::e1j_model::view_eq(&x.verif_view(), &y.verif_view(), true));
                    rule!(
                        self.ctx, "C20", "body", "tick", ok,
                        "tick: in-process (has_next {}, fills {:?}, admitted {:?}) vs HTTP (has_next {}, fills {:?}, admitted {:?})",
                        a.has_next, a.fills, a.orders, b.has_next, b.fills, b.orders
                    );
                    for f in &a.fills {
                        if let Err(e) = round_trip(f) {
                            self.ctx.fail("C20", "round-trip", "fill", format!("Fill does not survive serialise/deserialise: {e}"));
                        }
                    }
                    if !a.fills.is_empty() {
                        self.ctx.nontrivial = true;
                        self.ctx.add("fills_compared", a.fills.len() as u64);
                    }
                    self.ctx.sim_ticks += 1;
                }
            }
            Op::Fetch { bt, .. } => {
                let d = self.direct.fetch(*bt);
                let j = self.json.fetch(*bt);
                ev!(self.ctx, "fetch bt={bt} -> direct {:?} json {:?}", d.as_ref().map(|q| q.quotes.len()).map_err(|e| e.status), j.as_ref().map(|q| q.quotes.len()).map_err(|e| e.status));
                status_rule(&mut self.ctx, "fetch_quotes", d.is_ok(), &j.as_ref().map(|_| ()).map_err(|e| e.clone()));
                if let (Ok(a), Ok(b)) = (&d, &j) {
                    rule!(self.ctx, "C20", "body", "fetch_quotes", quotes_eq(&a.quotes, &b.quotes), "fetch_quotes: in-process {} vs HTTP {}", crate::e1u::canon_quotes(&a.quotes), crate::e1u::canon_quotes(&b.quotes));
                    for q in a.quotes.values() {
                        if let Err(e) = round_trip(q) {
                            self.ctx.fail("C20", "round-trip", "quote", format!("quote does not survive serialise/deserialise: {e}"));
                        }
                    }
                }
                #[cfg(shadow_http)]
                self.http_client_twin(op, match &d {
                    Ok(r) => crate::e1j::canon_quotes(&r.quotes),
                    Err(_) => "rejected".to_string(),
                });
            }
            Op::Info { bt, .. } => {
                let d = self.direct.info(*bt);
                let j = self.json.info(*bt);
                ev!(self.ctx, "info bt={bt} -> direct {:?} json {:?}", d.as_ref().map(|i| i.dataset.clone()).map_err(|e| e.status), j.as_ref().map(|i| i.dataset.clone()).map_err(|e| e.status));
                status_rule(&mut self.ctx, "info", d.is_ok(), &j.as_ref().map(|_| ()).map_err(|e| e.clone()));
                if let (Ok(a), Ok(b)) = (&d, &j) {
                    rule!(self.ctx, "C20", "body", "info", a.version == b.version && a.dataset == b.dataset, "info: in-process ({}, {}) vs HTTP ({}, {})", a.version, a.dataset, b.version, b.dataset);
                }
                #[cfg(shadow_http)]
                self.http_client_twin(op, match &d {
                    Ok(r) => format!("{} {}", r.version, r.dataset),
                    Err(_) => "rejected".to_string(),
                });
            }
            Op::Now { .. } => {}
        }
        let (a, b) = (digest_j(&self.direct), digest_j(&self.json));
        rule!(self.ctx, "C20", "state-diverged", "jura", a == b, "after {:?} the state behind the HTTP service differs from the in-process twin", op);
        let abs = self.direct.with_state(|st| {
            let mut d = Digest::new();
            d.u(st.backtests.len().min(5) as u64);
            let (mut book, mut buf) = (0usize, 0usize);
            for b in st.backtests.values() {
                let sn = b.exchange.verif_snapshot();
                book += sn.book.len();
                buf += sn.buffer.len();
            }
            d.u(book.min(8) as u64).u(buf.min(4) as u64).u(op.ileave().2);
            d.0
        });
        self.ctx.state(abs);
    }
}

fn gen_jura_order(rng: &mut Rng, ds: &DatasetSpec, k: usize, tag: u64, edge_p: f64) -> JOrderSpec {
    let symbol = rng.pick(&ds.symbols).clone();
    let asset: u64 = if rng.one_in(20) { *rng.pick(&[99u64, u64::MAX, 0]) } else { symbol.parse().unwrap_or(99) };
    let kind_idx = rng.usize(8);
    let is_buy = kind_idx % 2 == 0;
    let sz = if rng.one_in(8) { format!("{tag}.5") } else { format!("{tag}") };
    let px = crate::e1j::price_near(rng, ds, &symbol, k + 1);
    let mut limit_px = if rng.one_in(3) { format!("{:.2}", px) } else { format!("{}", px) };
    let mut sz = sz;
    // strings at the edge of what the exchange accepts: they parse, so the in-process call takes them
    // without a panic, and the transport has no business treating them differently (zero is the natural
    // "sell at any price")
    if rng.chance(edge_p) {
        limit_px = rng.pick(&["0", "0.0", "-1", "-0.25", "1e2", "+5", "0.000001", "00012.50"]).to_string();
    }
    if rng.chance(edge_p / 2.0) {
        sz = rng.pick(&["0", "0.0", "-1", "1e1", "+3"]).to_string();
    }
    let serde_way = rng.one_in(2);
    let kind = match kind_idx / 2 {
        0 => JKind::Ioc,
        1 => JKind::Gtc,
        n => {
            let mut t = limit_px.parse::<f64>().unwrap();
            let mut is_market = true;
            if serde_way {
                is_market = rng.one_in(2);
                if rng.one_in(2) {
                    t = crate::e1j::price_near(rng, ds, &symbol, k + 1);
                }
                if rng.chance(edge_p) {
                    t = edge_f64(rng, t);
                }
            }
            JKind::Trigger { trigger_px: X(t), is_market, is_tp: n == 3 }
        }
    };
    let (reduce_only, cloid) = if serde_way && rng.one_in(3) { (rng.one_in(2), Some(if rng.one_in(2) { format!("c{tag}") } else { "ÜNI✓ \"q\"".to_string() })) } else { (false, None) };
    JOrderSpec { asset, is_buy, limit_px, sz, kind, ctor: !serde_way, reduce_only, cloid }
}

impl Engine for E2J {
    type Case = Case<JOrderSpec>;

    fn name(&self) -> &'static str {
        "e2-jura-twin"
    }

    fn prefers_processes(&self) -> bool {
        true // JuraV1::tick println!s the whole book: threads would serialise on the stdout lock
    }

    fn generate(&self, seed: u64, focus: &str, tier: Tier, keep_text: bool) -> (Self::Case, Ctx) {
        let root = Rng::new(seed);
        let mut w = root.fork("world");
        let mut cfg = WorldCfg::exchange(true);
        if crate::common::long_run(seed, tier) {
            cfg.n_min = 50;
            cfg.n_max = 300;
        } else if tier == Tier::Thorough {
            cfg.n_max = 40;
        }
        let single = w.one_in(3);
        let nds = if single { 1 } else { w.range(1, 3) as usize };
        let mut st = WorldStats::default();
        let names = ["fake", "Fake", "BTC/USDT+100% ü"]; // case twins; a name that must be percent-encoded in a URL
        let datasets: Vec<DatasetSpec> = (0..nds).map(|i| gen_dataset(&mut w, names[i], &cfg, &mut st)).collect();
        let mut c = root.fork("cfg");
        let max_ops = if crate::common::long_run(seed, tier) { if tier == Tier::Thorough { c.range(300, 1200) as usize } else { c.range(200, 500) as usize } } else if tier == Tier::Thorough { c.range(20, 300) as usize } else { c.range(10, 60) as usize };
        let weights: [u32; 6] = [*c.pick(&[30, 45]), *c.pick(&[5, 10]), *c.pick(&[20, 30]), *c.pick(&[5, 10]), *c.pick(&[2, 5]), 0];
        let bogus_p = *c.pick(&[0.02, 0.05, 0.15]);
        let edge_p = *c.pick(&[0.0, 0.1, 0.4]);
        let n_clients = c.range(1, 4) as usize;
        let mut sched = Sched::new(&mut root.fork("sched"), n_clients);
        let mut rng = root.fork("ops");
        let mut case = Case { single, datasets: datasets.clone(), ops: Vec::new(), http_twin: root.fork("http-twin").one_in(3) };
        let mut tw = TwinJ::new(&case, focus, keep_text);
        tw.ctx.add("f1_quote_gaps_in_world", st.gaps);
        let ds_names: Vec<String> = datasets.iter().map(|d| d.name.clone()).collect();
        let mut ticks: HashMap<u64, usize> = HashMap::new();
        for i in 0..max_ops {
            if tw.ctx.failed() {
                break;
            }
            let (client, bt, kind, dataset) = gen_ops_common(&mut rng, &mut sched, &tw.bts, &ds_names, &weights, bogus_p);
            let op = match (bt, kind) {
                (None, _) => Op::Init { client, dataset },
                (Some(_), _) if i > 0 && rng.chance(0.04) && tw.bts.len() < 5 => Op::Init { client, dataset },
                (Some(bt), 0) => {
                    let di = tw.direct.with_state(|s| s.backtests.get(&bt).map(|b| b.dataset_name.clone())).and_then(|n| datasets.iter().position(|d| d.name == n)).unwrap_or(0);
                    let k = *ticks.get(&bt).unwrap_or(&0);
                    let tag = tw.next_tag;
                    tw.next_tag += 1;
                    Op::Insert { client, bt, order: gen_jura_order(&mut rng, &datasets[di], k, tag, edge_p) }
                }
                (Some(bt), 1) => {
                    let ids: Vec<(u64, u64)> = tw.direct.with_state(|s| s.backtests.get(&bt).map(|b| b.exchange.verif_snapshot().book.iter().map(|o| (o.order.asset, o.order_id)).collect()).unwrap_or_default());
                    let (asset, id) = if !ids.is_empty() && !rng.one_in(3) { *rng.pick(&ids) } else { (rng.below(3), rng.below(60)) };
                    Op::Delete { client, bt, asset, id }
                }
                (Some(bt), 2) => {
                    *ticks.entry(bt).or_insert(0) += 1;
                    Op::Tick { client, bt }
                }
                (Some(bt), 3) => Op::Fetch { client, bt },
                (Some(bt), _) => Op::Info { client, bt },
            };
            tw.exec(&op);
            case.ops.push(op);
        }
        (case, tw.ctx)
    }

    fn replay(&self, case: &Self::Case, focus: &str, keep_text: bool) -> Ctx {
        let mut tw = TwinJ::new(case, focus, keep_text);
        for op in &case.ops {
            if tw.ctx.failed() {
                break;
            }
            tw.exec(op);
        }
        tw.ctx
    }

    fn ops_len(&self, case: &Self::Case) -> usize {
        case.ops.len()
    }

    fn retain_ops(&self, case: &Self::Case, keep: &[bool]) -> Self::Case {
        let mut c = case.clone();
        c.ops = case.ops.iter().zip(keep.iter()).filter(|(_, k)| **k).map(|(o, _)| o.clone()).collect();
        c
    }

    fn simplifications(&self, case: &Self::Case) -> Vec<Self::Case> {
        let mut v = Vec::new();
        for (i, d) in case.datasets.iter().enumerate() {
            for keep in [1, 2, 3, d.n() / 2] {
                if keep >= 1 && keep < d.n() {
                    let mut c = case.clone();
                    c.datasets[i] = d.truncated(keep);
                    v.push(c);
                }
            }
        }
        v
    }
}
