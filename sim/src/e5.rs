//! Engine E5: several simulated threads call the real actix handlers of the Uist / Jura server (shadow
//! copies, see threads.rs / build.rs) on one shared state; a seeded scheduler decides every lock
//! hand-over. Oracle: the concurrent history is linearizable with respect to the same requests executed
//! one after another in-process. Decides the thread-level ("schedules") part of C08 and removes
//! assumption A1 (a handler holds the lock for its whole body).

#![cfg(shadow_http)]

use crate::common::{catch, Ctx, Tier};
use crate::e1j_model::{fmt_fill, fmt_view, JKind, JOrderSpec};
use crate::e1u_model::{fmt_order, fmt_trade, OrderSpec, Typ};
use crate::engine::Engine;
use crate::exec::block_on;
use crate::rng::Rng;
use crate::threads::shadow_jura as sj;
use crate::threads::shadow_uist as su;
use crate::threads::{self, shim, Chooser, Sched};
use crate::world::{gen_dataset, DatasetSpec, WorldCfg, WorldStats};
use crate::{common::X, ev};
use actix_web::test::{self, TestRequest};
use actix_web::{web, App};
use serde::{de::DeserializeOwned, Deserialize, Serialize};
use std::collections::HashMap;
use std::fmt::Debug;
use std::marker::PhantomData;
use std::sync::{Arc, Mutex as StdMutex};

pub type Call<'a> = &'a dyn Fn(TestRequest) -> (u16, Vec<u8>);
/// Two requests in flight on ONE worker: both futures are polled in turn by the worker's executor (what an
/// actix worker does with two connections). Handlers without an await point complete in their first poll.
pub type Call2<'a> = &'a dyn Fn(TestRequest, TestRequest) -> ((u16, Vec<u8>), (u16, Vec<u8>));

/// One server flavour: its state, its requests, the sequential reference and the way to the handlers.
pub trait Flavour: 'static + Sync + Clone + Debug {
    type App: Send + 'static;
    /// the lock around the state, as the server module's own alias names it (Mutex today)
    type State: shim::Peek<Self::App> + Send + Sync + 'static;
    type Req: Clone + Debug + Serialize + DeserializeOwned + Send + Sync + 'static;
    const NAME: &'static str;
    const JURA: bool;
    fn fresh(datasets: &[DatasetSpec]) -> Self::App;
    /// The request executed in-process (the sequential reference).
    fn direct(s: &mut Self::App, r: &Self::Req) -> String;
    fn digest(s: &Self::App) -> u64;
    /// Build the in-memory actix service of the calling thread over the shared state and run `body`.
    fn serve(data: web::Data<Self::State>, body: &mut dyn FnMut(Call, Call2));
    /// The request for the real handler, and the canonical text of its response.
    fn request(r: &Self::Req) -> TestRequest;
    fn decode(r: &Self::Req, status: u16, body: &[u8]) -> String;
    fn http(call: Call, r: &Self::Req) -> String {
        let (status, body) = call(Self::request(r));
        Self::decode(r, status, &body)
    }
    fn gen_req(rng: &mut Rng, datasets: &[DatasetSpec], bts: &[u64], next_tag: &mut u64) -> Self::Req;
    fn init_req(dataset: &str) -> Self::Req;
    fn is_init(r: &Self::Req) -> bool;
}

macro_rules! make_call2 {
    ($app:expr) => {
        |a: TestRequest, b: TestRequest| -> ((u16, Vec<u8>), (u16, Vec<u8>)) {
            let one = |req: TestRequest| {
                let app = &$app;
                async move {
                    match test::try_call_service(app, req.to_request()).await {
                        Ok(resp) => {
                            let status = resp.status().as_u16();
                            let body = test::read_body(resp).await;
                            (status, body.to_vec())
                        }
                        Err(e) => (e.as_response_error().status_code().as_u16(), Vec::new()),
                    }
                }
            };
            block_on(futures::future::join(one(a), one(b)))
        }
    };
}

macro_rules! make_call {
    ($app:expr) => {
        |req: TestRequest| -> (u16, Vec<u8>) {
            match block_on(test::try_call_service(&$app, req.to_request())) {
                Ok(resp) => {
                    let status = resp.status().as_u16();
                    let body = block_on(test::read_body(resp));
                    (status, body.to_vec())
                }
                Err(e) => (e.as_response_error().status_code().as_u16(), Vec::new()),
            }
        }
    };
}

fn grid(p: f64) -> f64 {
    ((p * 4.0).round() / 4.0).max(0.25)
}

// ------------------------------------------------------------------------------------------------
// Uist
// ------------------------------------------------------------------------------------------------

#[derive(Clone, Debug, Serialize, Deserialize)]
pub enum Req {
    Init { dataset: String },
    Tick { bt: u64 },
    Insert { bt: u64, order: OrderSpec },
    Delete { bt: u64, id: u64 },
    Fetch { bt: u64 },
    Now { bt: u64 },
    Info { bt: u64 },
}

#[derive(Clone, Debug)]
pub struct Uist;

impl Flavour for Uist {
    type App = su::AppState;
    type State = su::uistv1_server::UistState;
    type Req = Req;
    const NAME: &'static str = "e5-uist-threads";
    const JURA: bool = false;

    fn fresh(datasets: &[DatasetSpec]) -> su::AppState {
        let mut m: HashMap<String, rotala::input::penelope::Penelope> = HashMap::new();
        for d in datasets {
            m.insert(d.name.clone(), d.build());
        }
        su::AppState::create(&mut m)
    }

    fn direct(s: &mut su::AppState, r: &Req) -> String {
        match r {
            Req::Init { dataset } => match s.init(dataset.clone()) {
                Some(id) => format!("200 id={id}"),
                None => "400".to_string(),
            },
            Req::Tick { bt } => match s.tick(*bt) {
                Some((has_next, trades, orders)) => format!(
                    "200 has_next={has_next} trades=[{}] admitted=[{}]",
                    trades.iter().map(fmt_trade).collect::<Vec<_>>().join(","),
                    orders.iter().map(fmt_order).collect::<Vec<_>>().join(",")
                ),
                None => "400".to_string(),
            },
            Req::Insert { bt, order } => match s.insert_order(order.to_sut(), *bt) {
                Some(()) => "200".to_string(),
                None => "400".to_string(),
            },
            Req::Delete { bt, id } => match s.delete_order(*id, *bt) {
                Some(()) => "200".to_string(),
                None => "400".to_string(),
            },
            Req::Fetch { bt } => match s.fetch_quotes(*bt) {
                Some(q) => format!("200 {}", crate::e1u::canon_quotes(q)),
                None => "400".to_string(),
            },
            Req::Now { bt } => match s.backtests.get(bt) {
                Some(b) => match s.datasets.get(&b.dataset_name) {
                    Some(d) => format!("200 now={} has_next={}", b.date, d.has_next(b.pos)),
                    None => "400".to_string(),
                },
                None => "400".to_string(),
            },
            Req::Info { bt } => match s.backtests.get(bt) {
                Some(b) => format!("200 version=v1 dataset={}", b.dataset_name),
                None => "400".to_string(),
            },
        }
    }

    fn digest(s: &su::AppState) -> u64 {
        let mut ids: Vec<&u64> = s.backtests.keys().collect();
        ids.sort();
        let mut d = crate::clock::Digest::new();
        d.u(s.last).u(ids.len() as u64);
        for id in ids {
            let b = &s.backtests[id];
            d.u(b.id).i(b.date).u(b.pos as u64).s(&b.dataset_name).u(crate::e1u::snapshot_digest(&b.exchange.verif_snapshot()));
        }
        d.0
    }

    fn serve(data: web::Data<su::uistv1_server::UistState>, body: &mut dyn FnMut(Call, Call2)) {
        let app = block_on(test::init_service(
            App::new()
                .app_data(data)
                .service(su::uistv1_server::info)
                .service(su::uistv1_server::init)
                .service(su::uistv1_server::fetch_quotes)
                .service(su::uistv1_server::tick)
                .service(su::uistv1_server::insert_order)
                .service(su::uistv1_server::delete_order)
                .service(su::uistv1_server::now),
        ));
        let call = make_call!(app);
        let call2 = make_call2!(app);
        body(&call, &call2);
    }

    fn request(r: &Req) -> TestRequest {
        match r {
            Req::Init { dataset } => TestRequest::get().uri(&format!("/init/{}", crate::server::encode_segment(dataset))),
            Req::Tick { bt } => TestRequest::get().uri(&format!("/backtest/{bt}/tick")),
            Req::Insert { bt, order } => TestRequest::post().uri(&format!("/backtest/{bt}/insert_order")).set_json(su::uistv1_server::InsertOrderRequest { order: order.to_sut() }),
            Req::Delete { bt, id } => TestRequest::post().uri(&format!("/backtest/{bt}/delete_order")).set_json(su::uistv1_server::DeleteOrderRequest { order_id: *id }),
            Req::Fetch { bt } => TestRequest::get().uri(&format!("/backtest/{bt}/fetch_quotes")),
            Req::Now { bt } => TestRequest::get().uri(&format!("/backtest/{bt}/now")),
            Req::Info { bt } => TestRequest::get().uri(&format!("/backtest/{bt}/info")),
        }
    }

    fn decode(r: &Self::Req, status: u16, body: &[u8]) -> String {
        if status != 200 {
            return format!("{status}");
        }
        match r {
            Req::Init { .. } => match serde_json::from_slice::<su::uistv1_server::InitResponse>(body) {
                Ok(x) => format!("200 id={}", x.backtest_id),
                Err(e) => format!("200 undecodable {e}"),
            },
            Req::Tick { .. } => match serde_json::from_slice::<su::uistv1_server::TickResponse>(body) {
                Ok(x) => format!(
                    "200 has_next={} trades=[{}] admitted=[{}]",
                    x.has_next,
                    x.executed_trades.iter().map(fmt_trade).collect::<Vec<_>>().join(","),
                    x.inserted_orders.iter().map(fmt_order).collect::<Vec<_>>().join(",")
                ),
                Err(e) => format!("200 undecodable {e}"),
            },
            Req::Insert { .. } | Req::Delete { .. } => "200".to_string(),
            Req::Fetch { .. } => match serde_json::from_slice::<su::uistv1_server::FetchQuotesResponse>(body) {
                Ok(x) => format!("200 {}", crate::e1u::canon_quotes(&x.quotes)),
                Err(e) => format!("200 undecodable {e}"),
            },
            Req::Now { .. } => match serde_json::from_slice::<su::uistv1_server::NowResponse>(body) {
                Ok(x) => format!("200 now={} has_next={}", x.now, x.has_next),
                Err(e) => format!("200 undecodable {e}"),
            },
            Req::Info { .. } => match serde_json::from_slice::<su::uistv1_server::InfoResponse>(body) {
                Ok(x) => format!("200 version={} dataset={}", x.version, x.dataset),
                Err(e) => format!("200 undecodable {e}"),
            },
        }
    }

    fn gen_req(rng: &mut Rng, datasets: &[DatasetSpec], bts: &[u64], next_tag: &mut u64) -> Req {
        let bt = if bts.is_empty() || rng.one_in(12) { *rng.pick(&[77u64, 999]) } else { *rng.pick(bts) };
        match rng.weighted(&[25, 25, 25, 5, 8, 6, 3]) {
            0 => Req::Init { dataset: if rng.one_in(8) { "nope".to_string() } else { rng.pick(datasets).name.clone() } },
            1 => Req::Tick { bt },
            2 => {
                let ds = rng.pick(datasets);
                let typ = *rng.pick(&Typ::ALL);
                let symbol = rng.pick(&ds.symbols).clone();
                let tag = *next_tag;
                *next_tag += 1;
                // short decimals only: the reference receives the order in-process, the handlers through JSON
                // text, and only short decimals survive that bit for bit
                let price = if typ.is_market() { None } else { Some(X(grid(crate::e1u::price_near(rng, ds, &symbol, 1)))) };
                Req::Insert { bt, order: OrderSpec { typ, symbol, shares: X(tag as f64), price, preset_id: None } }
            }
            3 => Req::Delete { bt, id: rng.below(4) },
            4 => Req::Fetch { bt },
            5 => Req::Now { bt },
            _ => Req::Info { bt },
        }
    }

    fn init_req(dataset: &str) -> Req {
        Req::Init { dataset: dataset.to_string() }
    }

    fn is_init(r: &Req) -> bool {
        matches!(r, Req::Init { .. })
    }
}

// ------------------------------------------------------------------------------------------------
// Jura
// ------------------------------------------------------------------------------------------------

#[derive(Clone, Debug, Serialize, Deserialize)]
pub enum JReq {
    Init { dataset: String },
    Tick { bt: u64 },
    Insert { bt: u64, order: JOrderSpec },
    Delete { bt: u64, asset: u64, id: u64 },
    Fetch { bt: u64 },
    Info { bt: u64 },
}

#[derive(Clone, Debug)]
pub struct Jura;

/// The shadow copy names the exchange types through `rotala::`, so they are the very same types.
fn j_tick_text(has_next: bool, fills: &[rotala::exchange::jura_v1::Fill], orders: &[rotala::exchange::jura_v1::Order]) -> String {
    format!(
        "200 has_next={has_next} fills=[{}] admitted=[{}]",
        fills.iter().map(fmt_fill).collect::<Vec<_>>().join(","),
        orders.iter().map(|o| fmt_view(&o.verif_view())).collect::<Vec<_>>().join(",")
    )
}

impl Flavour for Jura {
    type App = sj::AppState;
    type State = sj::jurav1_server::JuraState;
    type Req = JReq;
    const NAME: &'static str = "e5-jura-threads";
    const JURA: bool = true;

    fn fresh(datasets: &[DatasetSpec]) -> sj::AppState {
        let mut m: HashMap<String, rotala::input::penelope::Penelope> = HashMap::new();
        for d in datasets {
            m.insert(d.name.clone(), d.build());
        }
        sj::AppState::create(&mut m)
    }

    fn direct(s: &mut sj::AppState, r: &JReq) -> String {
        match r {
            JReq::Init { dataset } => match s.init(dataset.clone()) {
                Some(id) => format!("200 id={id}"),
                None => "400".to_string(),
            },
            JReq::Tick { bt } => match s.tick(*bt) {
                Some((has_next, fills, orders, _triggered)) => j_tick_text(has_next, &fills, &orders),
                None => "400".to_string(),
            },
            JReq::Insert { bt, order } => match s.insert_order(order.to_sut(), *bt) {
                Some(()) => "200".to_string(),
                None => "400".to_string(),
            },
            JReq::Delete { bt, asset, id } => match s.delete_order(*asset, *id, *bt) {
                Some(()) => "200".to_string(),
                None => "400".to_string(),
            },
            JReq::Fetch { bt } => match s.fetch_quotes(*bt) {
                Some(q) => format!("200 {}", crate::e1j::canon_quotes(q)),
                None => "400".to_string(),
            },
            JReq::Info { bt } => match s.backtests.get(bt) {
                Some(b) => format!("200 version=v1 dataset={}", b.dataset_name),
                None => "400".to_string(),
            },
        }
    }

    fn digest(s: &sj::AppState) -> u64 {
        let mut ids: Vec<&u64> = s.backtests.keys().collect();
        ids.sort();
        let mut d = crate::clock::Digest::new();
        d.u(s.last).u(ids.len() as u64);
        for id in ids {
            let b = &s.backtests[id];
            d.u(b.id).i(b.date).u(b.pos as u64).s(&b.dataset_name).u(crate::e1j::snapshot_digest(&b.exchange.verif_snapshot()));
        }
        d.0
    }

    fn serve(data: web::Data<sj::jurav1_server::JuraState>, body: &mut dyn FnMut(Call, Call2)) {
        let app = block_on(test::init_service(
            App::new()
                .app_data(data)
                .service(sj::jurav1_server::info)
                .service(sj::jurav1_server::init)
                .service(sj::jurav1_server::fetch_quotes)
                .service(sj::jurav1_server::tick)
                .service(sj::jurav1_server::insert_order)
                .service(sj::jurav1_server::delete_order),
        ));
        let call = make_call!(app);
        let call2 = make_call2!(app);
        body(&call, &call2);
    }

    fn request(r: &JReq) -> TestRequest {
        match r {
            JReq::Init { dataset } => TestRequest::get().uri(&format!("/init/{}", crate::server::encode_segment(dataset))),
            JReq::Tick { bt } => TestRequest::get().uri(&format!("/backtest/{bt}/tick")),
            JReq::Insert { bt, order } => TestRequest::post().uri(&format!("/backtest/{bt}/insert_order")).set_json(sj::jurav1_server::InsertOrderRequest { order: order.to_sut() }),
            JReq::Delete { bt, asset, id } => TestRequest::post().uri(&format!("/backtest/{bt}/delete_order")).set_json(sj::jurav1_server::DeleteOrderRequest { asset: *asset, order_id: *id }),
            JReq::Fetch { bt } => TestRequest::get().uri(&format!("/backtest/{bt}/fetch_quotes")),
            JReq::Info { bt } => TestRequest::get().uri(&format!("/backtest/{bt}/info")),
        }
    }

    fn decode(r: &Self::Req, status: u16, body: &[u8]) -> String {
        if status != 200 {
            return format!("{status}");
        }
        match r {
            JReq::Init { .. } => match serde_json::from_slice::<sj::jurav1_server::InitResponse>(body) {
                Ok(x) => format!("200 id={}", x.backtest_id),
                Err(e) => format!("200 undecodable {e}"),
            },
            JReq::Tick { .. } => match serde_json::from_slice::<sj::jurav1_server::TickResponse>(body) {
                Ok(x) => j_tick_text(x.has_next, &x.executed_trades, &x.inserted_orders),
                Err(e) => format!("200 undecodable {e}"),
            },
            JReq::Insert { .. } | JReq::Delete { .. } => "200".to_string(),
            JReq::Fetch { .. } => match serde_json::from_slice::<sj::jurav1_server::FetchQuotesResponse>(body) {
                Ok(x) => format!("200 {}", crate::e1j::canon_quotes(&x.quotes)),
                Err(e) => format!("200 undecodable {e}"),
            },
            JReq::Info { .. } => match serde_json::from_slice::<sj::jurav1_server::InfoResponse>(body) {
                Ok(x) => format!("200 version={} dataset={}", x.version, x.dataset),
                Err(e) => format!("200 undecodable {e}"),
            },
        }
    }

    fn gen_req(rng: &mut Rng, datasets: &[DatasetSpec], bts: &[u64], next_tag: &mut u64) -> JReq {
        let bt = if bts.is_empty() || rng.one_in(12) { *rng.pick(&[77u64, 999]) } else { *rng.pick(bts) };
        match rng.weighted(&[25, 25, 25, 5, 8, 3]) {
            0 => JReq::Init { dataset: if rng.one_in(8) { "nope".to_string() } else { rng.pick(datasets).name.clone() } },
            1 => JReq::Tick { bt },
            2 => {
                let ds = rng.pick(datasets);
                let symbol = rng.pick(&ds.symbols).clone();
                let asset: u64 = symbol.parse().unwrap_or(99);
                let tag = *next_tag;
                *next_tag += 1;
                let px = grid(crate::e1j::price_near(rng, ds, &symbol, 1));
                let limit_px = format!("{px}");
                let is_buy = rng.one_in(2);
                let via_serde = rng.one_in(4);
                let kind = match rng.usize(4) {
                    0 => JKind::Ioc,
                    1 => JKind::Gtc,
                    n => {
                        let is_tp = n == 3;
                        if via_serde {
                            let t = if rng.one_in(2) { px } else { grid(crate::e1j::price_near(rng, ds, &symbol, 1)) };
                            JKind::Trigger { trigger_px: X(t), is_market: rng.one_in(2), is_tp }
                        } else {
                            JKind::Trigger { trigger_px: X(px), is_market: true, is_tp }
                        }
                    }
                };
                JReq::Insert { bt, order: JOrderSpec { asset, is_buy, limit_px, sz: format!("{tag}"), kind, ctor: !via_serde, reduce_only: false, cloid: None } }
            }
            3 => JReq::Delete { bt, asset: rng.pick(&rng.clone().pick(datasets).symbols).parse().unwrap_or(99), id: rng.below(4) },
            4 => JReq::Fetch { bt },
            _ => JReq::Info { bt },
        }
    }

    fn init_req(dataset: &str) -> JReq {
        JReq::Init { dataset: dataset.to_string() }
    }

    fn is_init(r: &JReq) -> bool {
        matches!(r, JReq::Init { .. })
    }
}

// ------------------------------------------------------------------------------------------------
// the simulation proper (generic)
// ------------------------------------------------------------------------------------------------

#[derive(Clone, Debug, Serialize, Deserialize)]
#[serde(bound = "")]
pub struct Case<F: Flavour> {
    pub datasets: Vec<DatasetSpec>,
    /// executed one after another before the threads start
    pub setup: Vec<F::Req>,
    /// one request script per simulated thread
    pub scripts: Vec<Vec<F::Req>>,
    /// the schedule: which thread got the baton at each decision
    pub schedule: Vec<u8>,
    /// per simulated thread: issue the script's requests two at a time (two requests in flight on one worker)
    #[serde(default)]
    pub join: Vec<bool>,
}

pub struct E5<F: Flavour>(pub PhantomData<F>);
pub const E5U: E5<Uist> = E5(PhantomData);
pub const E5J: E5<Jura> = E5(PhantomData);

#[derive(Clone, Debug)]
struct Event {
    thread: usize,
    idx: usize,
    call: u64,
    ret: u64,
    resp: String,
}

struct RunOut {
    events: Vec<Event>,
    schedule: Vec<u8>,
    switches: u64,
    gave_up: bool,
    final_digest: u64,
    panicked: Option<String>,
}

fn run_concurrent<F: Flavour>(case: &Case<F>, chooser: Chooser) -> RunOut {
    let mut st = F::fresh(&case.datasets);
    for r in &case.setup {
        F::direct(&mut st, r);
    }
    let data: web::Data<F::State> = web::Data::new(<F::State as shim::Peek<F::App>>::make(st));
    let n = case.scripts.len();
    let sched = Sched::new(n, chooser);
    let events: Arc<StdMutex<Vec<Event>>> = Arc::new(StdMutex::new(Vec::new()));
    let panicked: Arc<StdMutex<Option<String>>> = Arc::new(StdMutex::new(None));
    std::thread::scope(|scope| {
        for (t, script) in case.scripts.iter().enumerate() {
            let data = data.clone();
            let sched = sched.clone();
            let events = events.clone();
            let panicked = panicked.clone();
            let pipelined = case.join.get(t).copied().unwrap_or(false);
            scope.spawn(move || {
                crate::common::install_panic_capture();
                threads::enter(&sched, t);
                let r = catch(|| {
                    F::serve(data.clone(), &mut |call_svc: Call, call2_svc: Call2| {
                        let mut i = 0;
                        while i < script.len() {
                            if pipelined && i + 1 < script.len() {
                                let call = threads::global_step();
                                let ((sa, ba), (sb, bb)) = call2_svc(F::request(&script[i]), F::request(&script[i + 1]));
                                let ret = threads::global_step();
                                let (ra, rb) = (F::decode(&script[i], sa, &ba), F::decode(&script[i + 1], sb, &bb));
                                let mut ev = events.lock().unwrap();
                                ev.push(Event { thread: t, idx: i, call, ret, resp: ra });
                                ev.push(Event { thread: t, idx: i + 1, call, ret, resp: rb });
                                i += 2;
                            } else {
                                let call = threads::global_step();
                                let resp = F::http(call_svc, &script[i]);
                                let ret = threads::global_step();
                                events.lock().unwrap().push(Event { thread: t, idx: i, call, ret, resp });
                                i += 1;
                            }
                        }
                    });
                });
                if let Err(p) = r {
                    *panicked.lock().unwrap() = Some(p);
                }
                threads::leave();
            });
        }
        sched.kick_off();
    });
    let (schedule, switches, gave_up) = sched.result();
    let final_digest = shim::Peek::peek(&**data, |st| F::digest(st));
    let mut ev = events.lock().unwrap().clone();
    ev.sort_by_key(|e| e.call);
    let p = panicked.lock().unwrap().clone();
    RunOut { events: ev, schedule, switches, gave_up, final_digest, panicked: p }
}


/// Is there a sequential order of all requests, consistent with program order and real time, that gives
/// every request the response it got and ends in the same state?
fn linearizable<F: Flavour>(case: &Case<F>, out: &RunOut) -> Result<Vec<(usize, usize)>, String> {
    let n = out.events.len();
    let total: usize = case.scripts.iter().map(|s| s.len()).sum();
    if n != total {
        return Err(format!("{} of {} requests completed", n, total));
    }
    // per (virtual) thread: events in program order. The second request of a pipelined pair runs concurrently
    // with the first one on its worker, so it is not ordered after it: it goes to a virtual thread of its own
    // (pairs follow each other in real time, which the stamps enforce).
    let nt = case.scripts.len();
    let mut per: Vec<Vec<&Event>> = vec![Vec::new(); 2 * nt];
    for e in &out.events {
        let pipelined = case.join.get(e.thread).copied().unwrap_or(false);
        let vt = if pipelined && e.idx % 2 == 1 { nt + e.thread } else { e.thread };
        per[vt].push(e);
    }
    for v in per.iter_mut() {
        v.sort_by_key(|e| e.idx);
    }
    let mut next = vec![0usize; per.len()];
    let mut order: Vec<(usize, usize)> = Vec::new();
    let mut tried: u64 = 0;
    fn go<F: Flavour>(
        case: &Case<F>, out: &RunOut, per: &[Vec<&Event>], next: &mut Vec<usize>, order: &mut Vec<(usize, usize)>, tried: &mut u64,
    ) -> bool {
        let total: usize = per.iter().map(|v| v.len()).sum();
        if order.len() == total {
            // replay the whole order on a fresh state
            *tried += 1;
            let mut st = F::fresh(&case.datasets);
            for r in &case.setup {
                F::direct(&mut st, r);
            }
            for (t, i) in order.iter() {
                let e = per[*t][*i];
                let got = F::direct(&mut st, &case.scripts[e.thread][e.idx]);
                if got != e.resp {
                    return false;
                }
            }
            return F::digest(&st) == out.final_digest;
        }
        *tried += 1;
        if *tried > 300_000 {
            // search budget gone: undecided, which is not a violation (see the caller)
            return false;
        }
        // real time: a request may come next only if no other pending request returned before it was called
        let min_ret_pending: u64 = (0..per.len()).filter(|t| next[*t] < per[*t].len()).map(|t| per[t][next[t]].ret).min().unwrap_or(u64::MAX);
        for t in 0..per.len() {
            if next[t] >= per[t].len() {
                continue;
            }
            let e = per[t][next[t]];
            if e.call > min_ret_pending {
                continue;
            }
            // prefix check: replaying the prefix must already agree (prunes most of the tree)
            order.push((t, next[t]));
            next[t] += 1;
            let ok_prefix = {
                let mut st = F::fresh(&case.datasets);
                for r in &case.setup {
                    F::direct(&mut st, r);
                }
                let mut ok = true;
                for (tt, ii) in order.iter() {
                    let e = per[*tt][*ii];
                    if F::direct(&mut st, &case.scripts[e.thread][e.idx]) != e.resp {
                        ok = false;
                        break;
                    }
                }
                ok
            };
            if ok_prefix && go(case, out, per, next, order, tried) {
                return true;
            }
            next[t] -= 1;
            order.pop();
        }
        false
    }
    if go(case, out, &per, &mut next, &mut order, &mut tried) {
        Ok(order)
    } else if tried > 300_000 {
        // undecided within the search budget: never reported as a violation
        Ok(Vec::new())
    } else {
        Err(format!("no sequential order of the {} requests explains the responses and the final state", total))
    }
}

fn judge<F: Flavour>(case: &Case<F>, chooser: Chooser, focus: &str, keep_text: bool) -> (Ctx, Vec<u8>) {
    let mut ctx = Ctx::new(focus, keep_text);
    let out = run_concurrent(case, chooser);
    if out.gave_up {
        // once the simulation is given up the threads run freely to their end: what they still did is not
        // part of the deterministic execution and is not logged
        ev!(ctx, "DEADLOCK after {} scheduling decisions", out.schedule.len());
        let msg = format!(
            "the simulated threads could not all finish: some thread waits for a lock that is never released (deadlock), or 100 000 scheduling steps passed; scripts {:?}, requests in flight two at a time on workers {:?}",
            case.scripts, case.join
        );
        ctx.fail("C08", "deadlock-or-livelock", "threads", msg.clone());
        ctx.fail("C07", "deadlock-or-livelock", "threads", msg);
        return (ctx, out.schedule);
    }
    for e in &out.events {
        ev!(ctx, "t{} #{} [{}..{}] {:?} -> {}", e.thread, e.idx, e.call, e.ret, case.scripts[e.thread][e.idx], e.resp);
        ctx.ileave(e.thread as u64, 0, e.idx as u64);
        ctx.ops += 1;
    }
    // the interleaving measure of this engine: who called what when, and every scheduling decision
    for b in &out.schedule {
        crate::common::fnv(&mut ctx.ileave, *b as u64);
    }
    ctx.add("thread_context_switches", out.switches);
    ctx.add("thread_scheduling_decisions", out.schedule.len() as u64);
    let overlapping = out.events.iter().any(|a| out.events.iter().any(|b| a.thread != b.thread && a.call < b.ret && b.call < a.ret));
    if overlapping {
        ctx.bump("probe_requests_overlapping_in_time");
        ctx.nontrivial = true;
    }
    if let Some(p) = &out.panicked {
        ev!(ctx, "PANIC {p}");
        ctx.fail("C08", "sut-panic", "threads", format!("a handler panicked under a thread schedule: {p}"));
        ctx.fail("C07", "sut-panic", "threads", format!("a handler panicked under a thread schedule: {p}"));
        return (ctx, out.schedule);
    }
    match linearizable(case, &out) {
        Ok(order) => {
            if order.is_empty() && !out.events.is_empty() {
                ctx.bump("linearizability_search_budget_exhausted_undecided");
            }
        }
        Err(why) => {
            let hist = out.events.iter().map(|e| format!("t{}#{}[{}..{}] {:?} -> {}", e.thread, e.idx, e.call, e.ret, case.scripts[e.thread][e.idx], e.resp)).collect::<Vec<_>>().join(" | ");
            ctx.fail("C08", "not-linearizable", "threads", format!("{why}: {hist}"));
            ctx.fail("C07", "not-linearizable", "threads", format!("{why}: {hist}"));
        }
    }
    ctx.state(out.events.len() as u64 * 31 + out.switches.min(20));
    (ctx, out.schedule)
}

impl<F: Flavour> Engine for E5<F> {
    type Case = Case<F>;

    fn name(&self) -> &'static str {
        F::NAME
    }

    fn generate(&self, seed: u64, focus: &str, tier: Tier, keep_text: bool) -> (Case<F>, Ctx) {
        let root = Rng::new(seed);
        let mut w = root.fork("world");
        let mut cfg = WorldCfg::exchange(F::JURA);
        cfg.n_max = 6;
        cfg.sym_max = 2;
        let mut st = WorldStats::default();
        let nds = w.range(1, 2) as usize;
        let names = ["fake", "d2"];
        let mut datasets: Vec<DatasetSpec> = (0..nds).map(|i| gen_dataset(&mut w, names[i], &cfg, &mut st)).collect();
        // keep prices on the grid so that JSON text is exact
        for d in datasets.iter_mut() {
            for row in d.rows.iter_mut() {
                for q in row.iter_mut().flatten() {
                    q.0 = X((q.0 .0 * 4.0).round() / 4.0);
                    q.1 = X((q.1 .0 * 4.0).round() / 4.0);
                }
            }
        }
        let mut g = root.fork("ops");
        let mut next_tag = 1u64;
        // setup: one or two backtests, maybe a resting order and a tick
        let mut setup = Vec::new();
        let mut bts: Vec<u64> = Vec::new();
        for k in 0..g.range(1, 2) {
            setup.push(F::init_req(&g.pick(&datasets).name));
            bts.push(k as u64 + 1);
        }
        for _ in 0..g.range(0, 3) {
            let r = F::gen_req(&mut g, &datasets, &bts, &mut next_tag);
            if !F::is_init(&r) {
                setup.push(r);
            }
        }
        let n_threads = g.range(2, if tier == Tier::Thorough { 4 } else { 3 }) as usize;
        let max_total = if tier == Tier::Thorough { 9 } else { 7 };
        let mut scripts: Vec<Vec<F::Req>> = vec![Vec::new(); n_threads];
        let total = g.range(2, max_total) as usize;
        for i in 0..total {
            let t = if i < n_threads { i } else { g.usize(n_threads) };
            // ids a concurrent init may hand out are guessable: bts.len()+1, +2
            let mut known = bts.clone();
            if g.one_in(3) {
                known.push(bts.len() as u64 + 1 + g.below(2));
            }
            scripts[t].push(F::gen_req(&mut g, &datasets, &known, &mut next_tag));
        }
        // drawn from a fork so that the other runs stay what they were
        let mut jr = root.fork("pipelined-workers");
        let join: Vec<bool> = (0..n_threads).map(|_| jr.one_in(3)).collect();
        let mut case = Case { datasets, setup, scripts, schedule: Vec::new(), join };
        let (ctx, schedule) = judge(&case, Chooser::Random(root.fork("sched")), focus, keep_text);
        case.schedule = schedule;
        (case, ctx)
    }

    fn prefers_processes(&self) -> bool {
        F::JURA
    }

    fn replay(&self, case: &Case<F>, focus: &str, keep_text: bool) -> Ctx {
        judge(case, Chooser::Replay(case.schedule.clone(), 0), focus, keep_text).0
    }

    fn ops_len(&self, case: &Case<F>) -> usize {
        case.scripts.iter().map(|s| s.len()).sum::<usize>() + case.setup.len()
    }

    fn retain_ops(&self, case: &Case<F>, keep: &[bool]) -> Case<F> {
        let mut c = case.clone();
        let mut k = keep.iter();
        c.setup = case.setup.iter().filter(|_| *k.next().unwrap_or(&true)).cloned().collect();
        for (t, s) in case.scripts.iter().enumerate() {
            c.scripts[t] = s.iter().filter(|_| *k.next().unwrap_or(&true)).cloned().collect();
        }
        c
    }

    fn simplifications(&self, _case: &Case<F>) -> Vec<Case<F>> {
        Vec::new()
    }
}
