//! Server-level bookkeeping shared by the Uist and Jura exchange engines: which backtests exist,
//! how many ticks each has had, the PCT-style client scheduler, and the digest used for the
//! non-interference rules of C08.

use crate::common::{fnv, fnv_str, FNV0};
use crate::rng::Rng;

/// What the harness knows about one backtest it created.
#[derive(Clone, Debug)]
pub struct BtInfo {
    pub id: u64,
    /// index into the run's datasets
    pub ds: usize,
    /// ticks performed so far
    pub k: usize,
    pub owner: u8,
    /// has_next returned by the last tick (true before any tick)
    pub last_has_next: bool,
    /// the creation was answered with an id that was already in use (C08 defect): the harness
    /// model of this backtest is unreliable, rules that need it are skipped
    pub aliased: bool,
}

/// Date index a backtest's next tick matches against after `k` ticks on a dataset of `n` dates.
pub fn date_index(k: usize, n: usize) -> usize {
    k.min(n.saturating_sub(1))
}

/// Seeded scheduler over simulated clients: uniform, or priority based with random change points
/// (PCT style: long stretches of one client, then a switch).
#[derive(Clone, Debug)]
pub struct Sched {
    pub n: usize,
    pub pct: bool,
    prios: Vec<u32>,
    change_p: f64,
}

impl Sched {
    pub fn new(rng: &mut Rng, n: usize) -> Self {
        let pct = rng.one_in(2);
        let mut prios: Vec<u32> = (0..n as u32).collect();
        rng.shuffle(&mut prios);
        let change_p = *rng.pick(&[0.02, 0.05, 0.15]);
        Sched { n, pct, prios, change_p }
    }

    pub fn next(&mut self, rng: &mut Rng) -> u8 {
        if self.n <= 1 {
            return 0;
        }
        if !self.pct {
            return rng.usize(self.n) as u8;
        }
        // highest priority runs; at a change point it drops below everyone else
        let mut best = 0usize;
        for i in 1..self.n {
            if self.prios[i] > self.prios[best] {
                best = i;
            }
        }
        if rng.chance(self.change_p) {
            let min = *self.prios.iter().min().unwrap();
            self.prios[best] = min.saturating_sub(1);
            // keep priorities non-negative and distinct
            if self.prios[best] == min {
                for p in self.prios.iter_mut() {
                    *p += 1;
                }
                self.prios[best] = 0;
            }
        }
        best as u8
    }
}

pub struct Digest(pub u64);

impl Digest {
    pub fn new() -> Self {
        Digest(FNV0)
    }
    pub fn u(&mut self, x: u64) -> &mut Self {
        fnv(&mut self.0, x);
        self
    }
    pub fn i(&mut self, x: i64) -> &mut Self {
        fnv(&mut self.0, x as u64);
        self
    }
    pub fn f(&mut self, x: f64) -> &mut Self {
        fnv(&mut self.0, x.to_bits());
        self
    }
    pub fn s(&mut self, x: &str) -> &mut Self {
        fnv_str(&mut self.0, x);
        self
    }
    pub fn b(&mut self, x: bool) -> &mut Self {
        fnv(&mut self.0, x as u64);
        self
    }
}
