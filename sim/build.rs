//! Produces a *shadow copy* of the server modules of rotala (`/repo/rotala/src/http/{uist,jura}.rs`,
//! read from the current working tree on every build) in which `std::sync::Mutex` is replaced by the
//! simulator's scheduler-aware mutex, so that engine E5 can run the real actix handlers on several
//! simulated threads and decide every lock acquisition. Nothing in /repo is changed. The transformation
//! is purely textual and deliberately narrow; if it cannot be applied the build still succeeds and E5
//! reports itself unavailable (exit 2 for the thread-level part only, never an alarm).
use std::fs;
use std::path::Path;

fn transform(src: &str) -> Option<String> {
    // drop the #[cfg(test)] module at the end (it names std::sync::Mutex again)
    let body = match src.find("#[cfg(test)]\nmod tests") {
        Some(i) => &src[..i],
        None => src,
    };
    let mut out = String::new();
    let mut replaced = 0;
    for line in body.lines() {
        let t = line.trim_start();
        if t.starts_with("use ") && line.contains("sync::Mutex") {
            // keep every other name of the use line, take Mutex from the shim
            let rest = line.replace("sync::Mutex", "sync::Mutex as __StdMutexNotUsed");
            out.push_str(&rest);
            out.push('\n');
            let indent: String = line.chars().take_while(|c| c.is_whitespace()).collect();
            out.push_str(&format!("{indent}#[allow(unused_imports)]\n{indent}use crate::threads::shim::Mutex;\n"));
            replaced += 1;
        } else {
            // the reqwest transport of the HTTP clients becomes the simulated one (sim/src/simhttp.rs)
            out.push_str(&line.replace("crate::", "rotala::").replace("reqwest::Client", "crate::simhttp::Client"));
            out.push('\n');
        }
    }
    if replaced == 0 {
        return None;
    }
    Some(out)
}

fn main() {
    let out_dir = std::env::var("OUT_DIR").unwrap();
    let mut ok = std::env::var("CARGO_FEATURE_SHADOW").is_ok();
    for (name, path) in [("uist", "/repo/rotala/src/http/uist.rs"), ("jura", "/repo/rotala/src/http/jura.rs")] {
        println!("cargo:rerun-if-changed={path}");
        let dst = Path::new(&out_dir).join(format!("shadow_{name}.rs"));
        match fs::read_to_string(path).ok().and_then(|s| transform(&s)) {
            Some(t) => fs::write(&dst, t).unwrap(),
            None => {
                ok = false;
                fs::write(&dst, "// shadow copy unavailable\n").unwrap();
            }
        }
    }
    if ok {
        println!("cargo:rustc-cfg=shadow_http");
    }
    println!("cargo:rustc-check-cfg=cfg(shadow_http)");
}
