//! Produces a *shadow copy* of the server modules of rotala (`/repo/rotala/src/http/{uist,jura}.rs`,
//! read from the current working tree on every build) in which `std::sync::Mutex` is replaced by the
//! simulator's scheduler-aware mutex, so that engine E5 can run the real actix handlers on several
//! simulated threads and decide every lock acquisition. Nothing in /repo is changed. The transformation
//! is purely textual and deliberately narrow; if it cannot be applied the build still succeeds and E5
//! reports itself unavailable (exit 2 for the thread-level part only, never an alarm).
use std::fs;
use std::path::Path;

/// Replace the identifier `name` (whole word) in `line` by `with`.
fn replace_word(line: &str, name: &str, with: &str) -> String {
    let bytes = line.as_bytes();
    let mut out = String::new();
    let mut i = 0;
    while i < line.len() {
        if line[i..].starts_with(name) {
            let before_ok = i == 0 || !(bytes[i - 1].is_ascii_alphanumeric() || bytes[i - 1] == b'_');
            let j = i + name.len();
            let after_ok = j >= line.len() || !(bytes[j].is_ascii_alphanumeric() || bytes[j] == b'_');
            if before_ok && after_ok {
                out.push_str(with);
                i = j;
                continue;
            }
        }
        let ch = line[i..].chars().next().unwrap();
        out.push(ch);
        i += ch.len_utf8();
    }
    out
}

fn transform(src: &str) -> Option<String> {
    // drop the #[cfg(test)] module at the end (it names std::sync::Mutex again)
    let body = match src.find("#[cfg(test)]\nmod tests") {
        Some(i) => &src[..i],
        None => src,
    };
    let mut out = String::new();
    let mut replaced = 0;
    for line in body.lines() {
        let t = line.trim_start();
        // `use std::sync::Mutex;`, `use std::{error::Error, sync::Mutex};`, `use std::sync::{Arc, Mutex, RwLock};`
        // (std only: tokio's async locks have another API and are left alone)
        let is_std_sync_use = (t.starts_with("use std::") || t.starts_with("pub use std::")) && t.contains("sync") && (t.contains("Mutex") || t.contains("RwLock"));
        if is_std_sync_use {
            let mut rest = line.to_string();
            let indent: String = line.chars().take_while(|c| c.is_whitespace()).collect();
            let mut extra = String::new();
            if t.contains("Mutex") {
                rest = replace_word(&rest, "Mutex", "Mutex as __StdMutexNotUsed");
                extra.push_str(&format!("{indent}#[allow(unused_imports)]\n{indent}use crate::threads::shim::Mutex;\n"));
            }
            if t.contains("RwLock") {
                rest = replace_word(&rest, "RwLock", "RwLock as __StdRwLockNotUsed");
                extra.push_str(&format!("{indent}#[allow(unused_imports)]\n{indent}use crate::threads::shim::RwLock;\n"));
            }
            out.push_str(&rest);
            out.push('\n');
            out.push_str(&extra);
            replaced += 1;
        } else {
            // fully qualified uses, the crate's own paths, and the reqwest transport of the HTTP clients
            // (which becomes the simulated one, sim/src/simhttp.rs)
            let l = line
                .replace("std::sync::Mutex", "crate::threads::shim::Mutex")
                .replace("std::sync::RwLock", "crate::threads::shim::RwLock")
                .replace("crate::", "rotala::")
                .replace("rotala::threads::shim::", "crate::threads::shim::")
                .replace("reqwest::Client", "crate::simhttp::Client");
            if l != line && (line.contains("std::sync::Mutex") || line.contains("std::sync::RwLock")) {
                replaced += 1;
            }
            out.push_str(&l);
            out.push('\n');
        }
    }
    if replaced == 0 {
        return None;
    }
    Some(out)
}

fn main() {
    let out_dir = std::env::var("OUT_DIR").unwrap();
    let mut ok = std::env::var("CARGO_FEATURE_SHADOW").is_ok();
    for (name, path) in [("uist", "/repo/rotala/src/http/uist.rs"), ("jura", "/repo/rotala/src/http/jura.rs")] {
        println!("cargo:rerun-if-changed={path}");
        let dst = Path::new(&out_dir).join(format!("shadow_{name}.rs"));
        match fs::read_to_string(path).ok().and_then(|s| transform(&s)) {
            Some(t) => fs::write(&dst, t).unwrap(),
            None => {
                ok = false;
                fs::write(&dst, "// shadow copy unavailable\n").unwrap();
            }
        }
    }
    if ok {
        println!("cargo:rustc-cfg=shadow_http");
    }
    println!("cargo:rustc-check-cfg=cfg(shadow_http)");
}
