//! Produces a *shadow copy* of the server modules of rotala (`/repo/rotala/src/http/{uist,jura}.rs`,
//! read from the current working tree on every build) in which `std::sync::Mutex` is replaced by the
//! simulator's scheduler-aware mutex, so that engine E5 can run the real actix handlers on several
//! simulated threads and decide every lock acquisition. Nothing in /repo is changed. The transformation
//! is purely textual and deliberately narrow; if it cannot be applied the build still succeeds and E5
//! reports itself unavailable (exit 2 for the thread-level part only, never an alarm).
use std::fs;
use std::path::Path;

/// Replace the identifier `name` (whole word) in `line` by `with`.
fn replace_word(line: &str, name: &str, with: &str) -> String {
    let bytes = line.as_bytes();
    let mut out = String::new();
    let mut i = 0;
    while i < line.len() {
        if line[i..].starts_with(name) {
            let before_ok = i == 0 || !(bytes[i - 1].is_ascii_alphanumeric() || bytes[i - 1] == b'_');
            let j = i + name.len();
            let after_ok = j >= line.len() || !(bytes[j].is_ascii_alphanumeric() || bytes[j] == b'_');
            if before_ok && after_ok {
                out.push_str(with);
                i = j;
                continue;
            }
        }
        let ch = line[i..].chars().next().unwrap();
        out.push(ch);
        i += ch.len_utf8();
    }
    out
}

fn rewrite_line(line: &str) -> String {
    // `crate::http::...` of the original is the shadow module itself; every other `crate::` path is rotala's
    line.replace("std::sync::Mutex", "crate::threads::shim::Mutex")
        .replace("std::sync::RwLock", "crate::threads::shim::RwLock")
        .replace("crate::http::uist", "crate::threads::shadow_uist")
        .replace("crate::http::jura", "crate::threads::shadow_jura")
        .replace("crate::", "rotala::")
        .replace("rotala::threads::", "crate::threads::")
        .replace("reqwest::Client", "crate::simhttp::Client")
}

fn rewrite_paths(src: &str) -> String {
    let body = match src.find("#[cfg(test)]\nmod tests") {
        Some(i) => &src[..i],
        None => src,
    };
    body.lines().map(rewrite_line).collect::<Vec<_>>().join("\n") + "\n"
}

fn transform(src: &str) -> Option<String> {
    // drop the #[cfg(test)] module at the end (it names std::sync::Mutex again)
    let body = match src.find("#[cfg(test)]\nmod tests") {
        Some(i) => &src[..i],
        None => src,
    };
    let mut out = String::new();
    let mut replaced = 0;
    for line in body.lines() {
        let t = line.trim_start();
        // `use std::sync::Mutex;`, `use std::{error::Error, sync::Mutex};`, `use std::sync::{Arc, Mutex, RwLock};`
        // (std only: tokio's async locks have another API and are left alone)
        let names = ["Mutex", "MutexGuard", "RwLock", "RwLockReadGuard", "RwLockWriteGuard"];
        let has_word = |name: &str| replace_word(t, name, "\u{1}") != t;
        let is_std_sync_use = (t.starts_with("use std::") || t.starts_with("pub use std::")) && t.contains("sync") && names.iter().any(|n| has_word(n));
        if is_std_sync_use {
            let mut rest = line.to_string();
            let indent: String = line.chars().take_while(|c| c.is_whitespace()).collect();
            let mut extra = String::new();
            for n in names {
                if has_word(n) {
                    rest = replace_word(&rest, n, &format!("{n} as __Std{n}NotUsed"));
                    extra.push_str(&format!("{indent}#[allow(unused_imports)]\n{indent}use crate::threads::shim::{n};\n"));
                }
            }
            out.push_str(&rest);
            out.push('\n');
            out.push_str(&extra);
            replaced += 1;
        } else {
            // fully qualified uses, the crate's own paths, and the reqwest transport of the HTTP clients
            // (which becomes the simulated one, sim/src/simhttp.rs)
            let l = rewrite_line(line);
            if l != line && (line.contains("std::sync::Mutex") || line.contains("std::sync::RwLock")) {
                replaced += 1;
            }
            out.push_str(&l);
            out.push('\n');
        }
    }
    if replaced == 0 {
        return None;
    }
    Some(out)
}

fn copy_tree(src: &Path, dst: &Path, top: bool, ok: &mut bool) {
    let Ok(rd) = fs::read_dir(src) else {
        *ok = false;
        return;
    };
    let _ = fs::create_dir_all(dst);
    for e in rd.flatten() {
        let p = e.path();
        let name = e.file_name();
        if p.is_dir() {
            copy_tree(&p, &dst.join(&name), false, ok);
        } else if p.extension().map_or(false, |x| x == "rs") {
            let Ok(text) = fs::read_to_string(&p) else {
                *ok = false;
                continue;
            };
            let is_server = top && (name == "uist.rs" || name == "jura.rs");
            match transform(&text) {
                Some(t) => fs::write(dst.join(&name), t).unwrap(),
                // a file without a lock in it (e.g. wire types moved to a sub-module) is copied with the path
                // rewrites only; the two server files must contain the lock
                None if !is_server => fs::write(dst.join(&name), rewrite_paths(&text)).unwrap(),
                None => {
                    *ok = false;
                    fs::write(dst.join(&name), "// shadow copy unavailable\n").unwrap();
                }
            }
        }
    }
}

fn main() {
    let out_dir = std::env::var("OUT_DIR").unwrap();
    let mut ok = std::env::var("CARGO_FEATURE_SHADOW").is_ok();
    // the whole rotala/src/http tree is mirrored (sub-module files keep their relative places)
    let src = Path::new("/repo/rotala/src/http");
    println!("cargo:rerun-if-changed=/repo/rotala/src/http");
    let dst = Path::new(&out_dir).join("shadow");
    let _ = fs::remove_dir_all(&dst);
    copy_tree(src, &dst, true, &mut ok);
    // a file included through #[path] resolves its nested `mod x;` like a mod.rs would: the companion
    // directory of uist.rs / jura.rs (http/jura/...) must also be visible one level up
    for stem in ["uist", "jura"] {
        let companion = src.join(stem);
        if companion.is_dir() {
            let mut dummy = true;
            copy_tree(&companion, &dst, false, &mut dummy);
        }
    }
    for f in ["uist.rs", "jura.rs"] {
        println!("cargo:rerun-if-changed=/repo/rotala/src/http/{f}");
        if !dst.join(f).exists() {
            ok = false;
        }
    }
    let mods = format!(
        "#[allow(dead_code, unused_imports, clippy::all)]\n#[path = {:?}]\npub mod shadow_uist;\n#[allow(dead_code, unused_imports, clippy::all)]\n#[path = {:?}]\npub mod shadow_jura;\n",
        dst.join("uist.rs").to_string_lossy(),
        dst.join("jura.rs").to_string_lossy()
    );
    fs::write(Path::new(&out_dir).join("shadow_mods.rs"), mods).unwrap();
    if ok {
        println!("cargo:rustc-cfg=shadow_http");
    }
    println!("cargo:rustc-check-cfg=cfg(shadow_http)");
}
